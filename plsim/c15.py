"""C15 — FactoryPool spawns and releases just enough children.

The FactoryPool runs through its real run() loop under the virtual clock; an environment actor
changes the requested demand and the children between adjustments; an observer snapshots the
population right after every adjustment and compares with a small reference model.
"""
import gc
import random

import trio

from .world import World, RecPool, ScenarioInvalid, start_service, finish

from cobald.composite.factory import FactoryPool

DEM = [1.0, 2.0, 3.0, 4.0, 8.0, 0.5]
REQ = [0.0, 0.5, 1.0, 2.0, 3.0, 4.0, 5.0, 7.0, 8.0, 9.0, 12.0, 16.0, 20.0, 40.0]
SUP = [0.0, 0.0, 1.0, 2.0, 4.0, 8.0]
FR = [0.0, 0.25, 0.5, 0.75, 1.0]


def gen(seed, tier):
    rng = random.Random(seed)
    small = rng.random() < 0.8
    alphabet_d = DEM[:3] if small else DEM
    ninit = rng.randint(0, 3 if small else 6)
    init = [{"demand": rng.choice(alphabet_d), "supply": rng.choice(SUP), "utilisation": rng.choice(FR), "allocation": rng.choice(FR)} for _ in range(ninit)]
    periods = rng.randint(1, 6) if small else rng.randint(7, 40)
    script = []
    for k in range(periods):
        for _ in range(rng.choice([0, 1, 1, 2, 3])):
            what = rng.choice(["write", "write", "write", "child-supply", "child-supply", "child-fit", "child-zero", "drop", "gc"])
            op = {"k": k, "what": what}
            if what == "write":
                op["value"] = rng.choice(REQ if not small else REQ[:9])
            elif what == "child-supply":
                op["child"] = rng.randrange(12)
                op["value"] = rng.choice(SUP)
            elif what == "child-fit":
                op["child"] = rng.randrange(12)
                op["utilisation"] = rng.choice(FR)
                op["allocation"] = rng.choice(FR)
            elif what in ("child-zero", "drop"):
                op["child"] = rng.randrange(12)
            script.append(op)
    bystander = None
    if rng.random() < 0.25:
        # a second FactoryPool of the same process, with children of its own that it releases at some
        # point while somebody else keeps them alive: none of the first pool's business
        bystander = {"children": [rng.choice([1.0, 2.0, 4.0]) for _ in range(rng.randint(1, 3))], "drop_k": rng.randint(0, max(0, periods - 1)), "to": rng.choice([0.0, 0.0, 1.0])}
    return {"prop": "C15", "seed": seed, "bystander": bystander, "interval": rng.choice([0.5, 1.0, 30.0]), "initial": init, "factory_demands": [rng.choice(alphabet_d) for _ in range(rng.randint(1, 4))], "factory_supply": rng.choice([0.0, 0.0, 1.0]), "demand0": rng.choice([None, None, 0.0, 3.0, 8.0]), "periods": periods, "script": script}


def run(scenario, tape_values):
    sc = scenario
    try:
        interval = float(sc["interval"])
        periods = int(sc["periods"])
        init = sc["initial"]
        fdem = sc["factory_demands"]
        script = sc["script"]
        if interval <= 0 or periods < 1 or not fdem or any(d <= 0 for d in fdem) or any(c["demand"] <= 0 for c in init):
            raise ScenarioInvalid("bad parameters")
    except (KeyError, TypeError) as err:
        raise ScenarioInvalid(str(err))
    world = World(sc, tape_values)
    V = world.violate
    kids = []  # strong references held by the harness (None once dropped)
    made = []
    names = {}

    def new_child(state):
        c = RecPool(world, "k%d" % len(kids), supply=float(state.get("supply", 0.0)), demand=float(state["demand"]), utilisation=float(state.get("utilisation", 1.0)), allocation=float(state.get("allocation", 1.0)))
        kids.append(c)
        names[c.name] = "initial"
        return c

    def factory():
        d = fdem[len(made) % len(fdem)]
        c = new_child({"demand": d, "supply": sc.get("factory_supply", 0.0)})
        names[c.name] = "factory"
        made.append(c.name)
        world.log("factory-call", child=c.name, demand=d)
        return c

    initial = [new_child(s) for s in init]
    fp = FactoryPool(*initial, factory=factory, interval=interval)
    if sc.get("demand0") is not None:
        fp.demand = float(sc["demand0"])
    snaps = []
    ever_released = set()

    def snapshot(tag):
        try:
            hatch = sorted(c.name for c in fp._hatchery)
            mort = sorted(c.name for c in list(fp._mortuary))
        except AttributeError as err:
            raise RuntimeError("FactoryPool internals renamed: %s" % err)
        living = {c.name: c for c in fp.children}
        snap = {
            "tag": tag,
            "t": world.now(),
            "hatch": hatch,
            "mort": mort,
            "children": sorted(c.name for c in fp.children),
            "demand": {n: c._demand for n, c in living.items()},
            "supply": {n: c._supply for n, c in living.items()},
            "util": {n: c._utilisation for n, c in living.items()},
            "alloc": {n: c._allocation for n, c in living.items()},
            "requested": fp.demand,
            "nmade": len(made),
            # every child that exists (somebody still holds it), whether or not the pool remembers it
            "alive": {c.name: (c._supply, c._utilisation, c._allocation) for c in kids if c is not None},
        }
        prev_op = world.op
        world.op = "observer"
        try:
            snap["agg"] = {"supply": fp.supply, "utilisation": fp.utilisation, "allocation": fp.allocation}
        finally:
            world.op = prev_op
        world.log("snapshot", tag=tag, hatch=hatch, mort=mort, requested=snap["requested"], demand=dict(snap["demand"]))
        snaps.append(snap)
        return snap

    by = sc.get("bystander")
    bkids = []
    bfp = None
    if by:
        for d in by["children"]:
            bkids.append(RecPool(world, "b%d" % len(bkids), supply=float(d), demand=float(d), utilisation=1.0, allocation=1.0))

        def bfactory():
            c = RecPool(world, "b%d" % len(bkids), supply=0.0, demand=1.0, utilisation=1.0, allocation=1.0)
            bkids.append(c)
            return c

        bfp = FactoryPool(*bkids, factory=bfactory, interval=interval)
        world.count_fault("second-factory-pool")

    async def env(world, nursery):
        snapshot("initial")
        if bfp is not None:
            await start_service(world, nursery, "bystander", bfp, "C15/bystander-run-raised/%s")
        await start_service(world, nursery, "service", fp, "C15/run-raised/%s")
        by_k = {}
        for op in script:
            by_k.setdefault(int(op["k"]), []).append(op)
        for k in range(periods):
            ops = by_k.get(k, [])
            if bfp is not None and k == int(by["drop_k"]):
                bfp.demand = float(by["to"])
            for j, op in enumerate(ops):
                await trio.sleep_until(k * interval + interval * (j + 1) / (len(ops) + 2))
                what = op["what"]
                world.op = what
                try:
                    live = [c for c in kids if c is not None]
                    if what == "write":
                        world.log("env-write", value=float(op["value"]))
                        fp.demand = float(op["value"])
                    elif what == "child-supply":
                        if live:
                            live[op["child"] % len(live)].poke("supply", float(op["value"]))
                    elif what == "child-fit":
                        if live:
                            c = live[op["child"] % len(live)]
                            c.poke("utilisation", float(op["utilisation"]))
                            c.poke("allocation", float(op["allocation"]))
                    elif what == "child-zero":
                        if live:
                            live[op["child"] % len(live)].poke("demand", 0.0)
                            world.count_fault("child-disables-itself")
                    elif what == "drop":
                        released = [i for i, c in enumerate(kids) if c is not None and c.name in ever_released]
                        if released:
                            i = released[op["child"] % len(released)]
                            world.log("drop-ref", child=kids[i].name)
                            kids[i] = None
                            world.count_fault("released-child-dropped")
                    elif what == "gc":
                        gc.collect()
                        world.count_fault("gc")
                    else:
                        raise ScenarioInvalid(what)
                finally:
                    world.op = None
            await trio.sleep_until(k * interval + interval * (len(ops) + 1.5) / (len(ops) + 2))
            before = snapshot("before-%d" % (k + 1))
            await trio.sleep_until((k + 1) * interval + interval / 64)
            after = snapshot("after-%d" % (k + 1))
            for n in before["hatch"]:
                if n not in after["hatch"]:
                    ever_released.add(n)
            for n in after["mort"]:
                ever_released.add(n)
            judge(before, after, k + 1)
            if world.violations:
                return

    def judge(b, a, k):
        R = b["requested"]
        spawned = [n for n in a["hatch"] + a["mort"] if n not in b["children"] and names.get(n) == "factory" and n in made[b["nmade"]:]]
        new_calls = made[b["nmade"]:a["nmade"]]
        active = a["hatch"]
        both = set(a["hatch"]) & set(a["mort"])
        if both or len(set(a["children"])) != len(a["children"]):
            V("C15/active-and-released", "adjustment %d: children %r are both active and released" % (k, sorted(both) or a["children"]))
        for n in a["mort"]:
            if a["demand"].get(n, 0.0) != 0:
                V("C15/released-with-demand", "adjustment %d: released child %s has demand %r" % (k, n, a["demand"][n]))
        for n in active:
            if n in ever_released and n in b["mort"]:
                V("C15/released-active-again", "adjustment %d: child %s had been released and is active again" % (k, n))
            if a["demand"][n] <= 0:
                V("C15/active-without-demand", "adjustment %d: active child %s has demand %r and was not released" % (k, n, a["demand"][n]))
            if n not in names:
                V("C15/foreign-child", "adjustment %d: child %s was created neither initially nor by the factory" % (k, n))
        if len(new_calls) != len(set(new_calls)) or sorted(new_calls) != sorted(n for n in a["children"] if n not in b["children"]) and not any(n not in a["children"] for n in new_calls):
            V("C15/factory-count", "adjustment %d: factory calls %r, new children %r" % (k, new_calls, [n for n in a["children"] if n not in b["children"]]))
        for n in new_calls:
            if n not in a["hatch"] and n not in a["mort"] and kids_alive(n):
                V("C15/spawned-child-lost", "adjustment %d: the factory made %s but it is neither active nor released" % (k, n))
        for n in a["children"]:
            if n not in names:
                V("C15/foreign-child", "adjustment %d: child %s, reported among the children, was created neither initially nor by this pool's factory" % (k, n))
        tot = sum(a["demand"][n] for n in active)
        released_now = [n for n in b["hatch"] if n not in a["hatch"]]
        shrank = [n for n in released_now if b["demand"].get(n, 0.0) > 0]
        if new_calls:
            last = new_calls[-1]
            if tot < R:
                V("C15/grow-not-enough", "adjustment %d spawned %r but the active demand %r does not cover the requested %r" % (k, new_calls, tot, R))
            if last in a["demand"] and tot - a["demand"][last] >= R and last in active:
                V("C15/grow-too-much", "adjustment %d spawned %r; without the last child (%s, demand %r) the active demand %r would already cover the requested %r" % (k, new_calls, last, a["demand"][last], tot - a["demand"][last], R))
            world.probe("adjustment-grew")
        if shrank:
            world.probe("adjustment-shrank")
            if tot < R:
                V("C15/shrink-too-much", "adjustment %d released %r (demands %r) and the remaining active demand %r no longer covers the requested %r" % (k, shrank, [b["demand"][n] for n in shrank], tot, R))
            excess = tot - R
            keep = [n for n in active if 0 < a["demand"][n] <= excess]
            if keep:
                V("C15/shrink-not-enough", "adjustment %d released %r but kept %r (demand %r) although the remaining excess is %r" % (k, shrank, keep[0], a["demand"][keep[0]], excess))
        if not new_calls and not released_now:
            world.probe("adjustment-idle")
        # aggregation over all living children
        alive = dict(a["alive"])
        for n in a["children"]:  # dropped by the harness, not yet collected: exists as well
            alive.setdefault(n, (a["supply"][n], a["util"][n], a["alloc"][n]))
        forgotten = sorted(n for n in alive if n not in a["children"])
        if forgotten:
            V("C15/child-forgotten", "adjustment %d: children %r still exist (supply %r) but are neither active nor released any more" % (k, forgotten, [alive[n][0] for n in forgotten]))
        living = sorted(alive)
        want_supply = sum(alive[n][0] for n in living)
        with_supply = [n for n in living if alive[n][0] > 0]
        want_u = sum(alive[n][1] for n in with_supply) / len(with_supply) if with_supply else 1.0
        want_a = sum(alive[n][2] for n in with_supply) / len(with_supply) if with_supply else 1.0
        if a["agg"]["supply"] != want_supply:
            V("C15/aggregate-supply", "adjustment %d: supply %r, sum over all children %r" % (k, a["agg"]["supply"], want_supply))
        if a["agg"]["utilisation"] != want_u:
            V("C15/aggregate-utilisation", "adjustment %d: utilisation %r, mean over children with supply %r" % (k, a["agg"]["utilisation"], want_u))
        if a["agg"]["allocation"] != want_a:
            V("C15/aggregate-allocation", "adjustment %d: allocation %r, mean over children with supply %r" % (k, a["agg"]["allocation"], want_a))

    def kids_alive(name):
        return any(c is not None and c.name == name for c in kids)

    async def main(world, nursery):
        await env(world, nursery)

    world.run(main)
    grew = world.probes.get("adjustment-grew", 0)
    shr = world.probes.get("adjustment-shrank", 0)
    shape = ["C15", min(len(init), 3), min(periods, 7), sorted({o["what"] for o in script}), min(grew, 3), min(shr, 3), [round(x, 2) for x in fdem][:3]]
    return finish(world, shape, grew + shr > 0)
