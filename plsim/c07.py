"""C07 — composite pools conserve demand and aggregate their children faithfully.

Histories of demand writes, child state changes and children added / removed over a
UniformComposite / WeightedComposite.  Schedule dimension degenerate (DESIGN 6.5).
"""
import math
import random

import trio

from .world import World, RecPool, ScenarioInvalid, finish

from cobald.composite.uniform import UniformComposite
from cobald.composite.weighted import WeightedComposite

REL = 1e-9
FRACS = [0.0, 0.0, 0.125, 0.25, 0.5, 0.75, 1.0, 1.0, 1e-100, 1e-9, 0.3, 0.1, 0.7, 1.25, 1.5, 2.0]  # overbooked pools report more than 1
SUPPLIES = [0.0, 0.0, 1.0, 2.0, 3.0, 8.0, 10.0, 0.1, 1e-100, 1e-9, 1e9, 1e100, 7.0, 1000.0]
DEMANDS = [0.0, 1.0, 2.0, 3.0, 10.0, 0.1, 0.3, 1e-100, 1e-9, 1e9, 1e100, 7.0, 100.0, 1, 10, 0]


def gen_child(rng, mode, supplies=SUPPLIES):
    if mode == "zero":
        return {"supply": 0.0, "utilisation": 0.0, "allocation": 0.0}
    if mode == "equal":
        return {"supply": 4.0, "utilisation": 0.5, "allocation": 0.5}
    return {"supply": rng.choice(supplies), "utilisation": rng.choice(FRACS), "allocation": rng.choice(FRACS)}


def gen(seed, tier):
    rng = random.Random(seed)
    kind = rng.choice(["uniform", "supply", "utilisation", "allocation"])
    mode = rng.choice(["random", "random", "random", "zero", "equal", "single"])
    n = rng.randint(0, 8)
    supplies, demands = SUPPLIES, DEMANDS
    if kind == "supply" and rng.random() < 0.1:
        # opposite extremes: a huge demand over tiny weights, or a tiny demand over huge weights.
        # Every product and quotient the documented formula (D * weight / total weight) needs
        # stays inside the double range, so overflow / underflow is never the input's fault.
        if rng.random() < 0.5:
            supplies, demands = [1e-200, 2e-200, 3e-200, 0.0], DEMANDS + [1e200, 3e199, 1e200]
        else:
            supplies, demands = [1e200, 2e200, 3e200, 0.0], DEMANDS + [1e-200, 3e-199, 1e-200]
    children = [gen_child(rng, mode if mode != "single" else "zero", supplies) for _ in range(n)]
    if mode == "single" and children:
        children[rng.randrange(n)] = gen_child(rng, "random", supplies)
    ops = []
    reassign_world = rng.random() < 0.25
    for _ in range(rng.randint(1, 10) if rng.random() < 0.8 else rng.randint(11, 40)):
        k = rng.choice(["write", "write", "write", "state", "state", "add", "remove", "read"] + (["dup"] if rng.random() < 0.25 else []) + (["reassign"] if reassign_world else []))
        if k == "write":
            ops.append(["write", rng.choice(demands)])
        elif k == "state":
            ops.append(["state", rng.randrange(9), rng.choice(["supply", "utilisation", "allocation"]), None])
            ops[-1][3] = rng.choice(supplies) if ops[-1][2] == "supply" else rng.choice(FRACS)
        elif k == "add":
            ops.append(["add", gen_child(rng, rng.choice(["random", "zero"]), supplies)])
        elif k == "remove":
            ops.append(["remove", rng.randrange(9)])
        elif k == "reassign":
            # the children attribute assigned a new list (same pools, rotated / one dropped): the
            # demand written before still reads back
            ops.append(["reassign", rng.choice(["same", "rotate", "drop-last"])])
        elif k == "dup":
            ops.append(["dup", rng.randrange(9)])  # the same pool listed once more: it counts once per entry
        else:
            ops.append(["read"])
    return {"prop": "C07", "seed": seed, "bystander": rng.random() < 0.3, "kind": kind, "children": children, "ops": ops, "initial_demand": rng.choice([0.0, 1.0, 5.0])}


def close(a, b, scale=None):
    scale = max(abs(a), abs(b), scale or 0.0)
    return abs(a - b) <= REL * scale + 1e-300


def run(scenario, tape_values):
    sc = scenario
    try:
        kind = sc["kind"]
        ops = sc["ops"]
        if kind not in ("uniform", "supply", "utilisation", "allocation"):
            raise ScenarioInvalid(kind)
    except (KeyError, TypeError) as err:
        raise ScenarioInvalid(str(err))
    world = World(sc, tape_values)
    V = world.violate
    counter = [0]

    def mk(state):
        counter[0] += 1
        return RecPool(world, "c%d" % counter[0], supply=state["supply"], demand=sc.get("initial_demand", 0.0), utilisation=state["utilisation"], allocation=state["allocation"])

    kids = [mk(c) for c in sc["children"]]
    # every world starts from the state of a fresh interpreter: class-level defaults are process state
    for cls_ in (UniformComposite, WeightedComposite):
        if isinstance(cls_.__dict__.get("children"), list):  # (leave descriptors of the code under test alone)
            cls_.children = []
    comp = UniformComposite(*kids) if kind == "uniform" else WeightedComposite(*kids, weight=kind)
    expected = list(kids)  # the children this composite was given, kept by the harness
    if sc.get("bystander"):
        # another composite of the same class, built empty and filled in place: none of this one's business
        by = UniformComposite() if kind == "uniform" else WeightedComposite(weight=kind)
        by.children.append(RecPool(world, "foreign", supply=5.0, demand=9.0, utilisation=0.5, allocation=0.5))
    written = {"D": None}

    def check_children(tag):
        if [id(c) for c in comp.children] != [id(c) for c in expected]:
            V("C07/children-changed-behind-its-back/%s" % kind, "after %s the composite holds %r, it was given %r" % (tag, [c.name for c in comp.children], [c.name for c in expected]))

    def weights():
        if kind == "uniform":
            return [1.0 for _ in comp.children]
        return [getattr(c, "_" + kind) for c in comp.children]

    def check_aggregates(tag):
        ch = list(comp.children)
        sup = comp.supply
        want_sup = math.fsum(c._supply for c in ch)
        if not close(sup, want_sup):
            V("C07/supply-sum/%s" % kind, "composite supply %r, children's supplies sum to %r" % (sup, want_sup))
        w = weights()
        total = math.fsum(w)
        for attr in ("utilisation", "allocation"):
            got = getattr(comp, attr)
            vals = [getattr(c, "_" + attr) for c in ch]
            if not ch:
                if got != 1.0:
                    V("C07/fallback-no-children/%s/%s" % (kind, attr), "%s without children is %r, documented fallback 1.0" % (attr, got))
                continue
            if kind != "uniform" and total == 0:
                want = 0.0 if want_sup > 0 else 1.0
                if got != want:
                    V("C07/fallback-zero-weight/%s/%s" % (kind, attr), "%s with vanishing weights and supply %r is %r, documented fallback %r" % (attr, want_sup, got, want))
                continue
            lo, hi = min(vals), max(vals)
            tol = REL * max(abs(lo), abs(hi), 1e-300)
            if not (lo - tol <= got <= hi + tol):
                V("C07/fitness-outside-range/%s/%s" % (kind, attr), "%s = %r leaves the range [%r, %r] spanned by the children (weights %r)" % (attr, got, lo, hi, w))

    def check_distribution(D):
        ch = list(comp.children)
        if not ch or D < 0:
            return
        shares = [c._demand for c in ch]
        tot = math.fsum(shares)
        if not close(tot, D, scale=max(abs(s) for s in shares)):
            V("C07/not-conserved/%s" % kind, "wrote D=%r, children's demands %r sum to %r" % (D, shares, tot))
        w = weights()
        total = math.fsum(w)
        for s, wi in zip(shares, w):
            if s < -REL * abs(D) or s > D * (1 + REL) + 1e-300:
                V("C07/share-out-of-bounds/%s" % kind, "share %r not within [0, D=%r] (weights %r)" % (s, D, w))
            if kind == "uniform" or total == 0:
                if not close(s, D / len(ch), scale=D):
                    V("C07/not-uniform/%s" % kind, "share %r, expected the equal share %r (weights %r)" % (s, D / len(ch), w))
            else:
                if not close(s * total, D * wi, scale=abs(D) * total):
                    V("C07/not-proportional/%s" % kind, "share %r * total weight %r != D %r * weight %r" % (s, total, D, wi))

    async def main(world, nursery):
        check_children("construction")
        check_aggregates("initial")
        for op in ops:
            k = op[0]
            world.op = k
            if k == "write":
                D = op[1]
                world.log("composite-write", value=D)
                comp.demand = D
                written["D"] = D
                got = comp.demand
                if got != D or type(got) is not type(D):
                    V("C07/readback/%s" % kind, "wrote %r, composite reads back %r" % (D, got))
                check_distribution(D)
            elif k == "state":
                ch = comp.children
                if ch:
                    ch[op[1] % len(ch)].poke(op[2], op[3])
            elif k == "add":
                comp.children.append(mk(op[1]))
                expected.append(comp.children[-1])
            elif k == "remove":
                if comp.children:
                    expected.pop(op[1] % len(comp.children))
                    comp.children.pop(op[1] % len(comp.children))
            elif k == "reassign":
                cur = list(comp.children)
                if op[1] == "rotate" and cur:
                    cur = cur[1:] + cur[:1]
                elif op[1] == "drop-last" and len(cur) > 1:
                    cur = cur[:-1]
                comp.children = cur
                expected[:] = cur
                if written["D"] is not None and (comp.demand != written["D"] or type(comp.demand) is not type(written["D"])):
                    V("C07/readback/%s" % kind, "composite reads back %r after its children were assigned anew, last written %r" % (comp.demand, written["D"]))
            elif k == "dup":
                if comp.children:
                    comp.children.append(comp.children[op[1] % len(comp.children)])
                    expected.append(comp.children[-1])
            elif k == "read":
                if written["D"] is not None and comp.demand != written["D"]:
                    V("C07/readback/%s" % kind, "composite reads back %r, last written %r" % (comp.demand, written["D"]))
            else:
                raise ScenarioInvalid(k)
            check_children(k)
            check_aggregates(k)
            world.op = None
            await trio.sleep(0)

    world.run(main)
    w0 = [c.get(kind, 1.0) if kind != "uniform" else 1.0 for c in sc["children"]]
    cls = "none" if not w0 else ("all-zero" if not any(w0) else ("single" if sum(1 for x in w0 if x) == 1 else ("equal" if len(set(w0)) == 1 else "mixed")))
    shape = ["C07", kind, min(len(sc["children"]), 4), cls, sorted({o[0] for o in ops}), min(len(ops), 11)]
    return finish(world, shape, any(o[0] == "write" for o in ops) and bool(sc["children"]))
