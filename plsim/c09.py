"""C09 — periodic services act once per interval, for as long as they run.

World: one shipped periodic service over recording pools, a timed environment
script, virtual clock.  Oracles are evaluated over the recorded history.
"""
import gc
import random

import trio

from .world import World, RecPool, ScenarioInvalid, start_service, finish

from cobald.controller.linear import LinearController
from cobald.controller.relative_supply import RelativeSupplyController
from cobald.controller.stepwise import stepwise, Stepwise
from cobald.controller.switch import DemandSwitch
from cobald.decorator.buffer import Buffer
from cobald.composite.factory import FactoryPool

KINDS = ["linear", "relsupply", "stepwise", "switch", "buffer", "factory"]
# mostly dyadic (exact float arithmetic on the clock), some not: a run loop that does arithmetic
# on clock readings must not depend on interval multiples being representable
INTERVALS = [0.25, 0.5, 1.0, 2.0, 8.0, 30.0, 0.25, 0.5, 1.0, 2.0, 8.0, 30.0, 0.1, 0.3, 0.7, 1.1]
FRACTIONS = [0.0, 0.125, 0.25, 0.375, 0.5, 0.625, 0.75, 0.875, 1.0]


def gen(seed, tier):
    rng = random.Random(seed)
    kind = rng.choice(KINDS)
    interval = rng.choice(INTERVALS)
    eps = interval / 8
    if rng.random() < 0.7:
        periods = rng.randint(3, 12)
    else:
        periods = rng.randint(13, 200 if tier == "thorough" else 80)
    sc = {
        "prop": "C09",
        "seed": seed,
        "kind": kind,
        "interval": interval,
        "periods": periods,
        # the service may be cancelled and its run() started again on the same object: it acts again at
        # once and then once per interval, counted from the new start
        "restart": ({"gap": rng.choice([0.0, 0.5, 1.0, 3.0]) * interval, "periods": rng.randint(1, 5)} if rng.random() < 0.15 else None),
        "start": rng.choice([0.0, 0.0, eps, interval, 3.5]),
        "pool": {
            "supply": rng.choice([0.0, 1.0, 4.0, 8.0, 16.0, 100.0]),
            "demand": rng.choice([0.0, 1.0, 4.0, 8.0, 10.0, 100.0]),
            "utilisation": rng.choice(FRACTIONS),
            "allocation": rng.choice(FRACTIONS),
        },
        "script": [],
    }
    low = rng.choice(FRACTIONS)
    high = rng.choice([f for f in FRACTIONS if f >= low])
    if kind == "linear":
        sc["params"] = {"low_utilisation": low, "high_allocation": high, "rate": rng.choice([0.125, 0.5, 1.0, 2.0, 16.0])}
    elif kind == "relsupply":
        sc["params"] = {
            "low_utilisation": low,
            "high_allocation": high,
            "low_scale": rng.choice([0.0, 0.25, 0.5, 0.875]),
            "high_scale": rng.choice([1.125, 1.5, 2.0, 4.0]),
        }
    elif kind == "stepwise":
        n = rng.randint(0, 4)
        ths = rng.sample([1.0, 2.0, 4.0, 8.0, 16.0, 50.0, 100.0], n)
        sc["params"] = {
            "base": _gen_rule(rng),
            "rules": [{"supply": th, "rule": _gen_rule(rng)} for th in ths],
            "via": rng.choice(["call", "partial", "direct"]),
        }
    elif kind == "switch":
        n = rng.randint(0, 3)
        ths = rng.sample([1.0, 2.0, 4.0, 8.0, 10.0, 50.0], n)
        sc["params"] = {
            "default": _gen_slave(rng),
            "slaves": [{"demand": th, "ctrl": _gen_slave(rng)} for th in ths],
        }
    elif kind == "buffer":
        sc["params"] = {}
    elif kind == "factory":
        sc["params"] = {
            # >= 1 child so that every adjustment is observable (it reads the children's supply)
            "initial_children": [rng.choice([1.0, 2.0, 4.0]) for _ in range(rng.randint(1, 3))],
            "child_demand": [rng.choice([1.0, 2.0, 4.0, 8.0]) for _ in range(rng.randint(1, 3))],
            "demand": rng.choice([1.0, 3.0, 8.0, 20.0]),
        }
    # environment script
    near_values = kind == "buffer" and rng.random() < 0.2
    nops = rng.randint(0, 10)
    horizon = sc["start"] + periods * interval
    for _ in range(nops):
        k = rng.randint(0, periods)
        mode = rng.choice(["before", "on", "on", "after", "random"])
        t = sc["start"] + k * interval
        if mode == "before":
            t -= eps
        elif mode == "after":
            t += eps
        elif mode == "random":
            t = sc["start"] + rng.randint(0, periods * 8) * eps
        t = min(max(t, 0.0), horizon)
        if kind == "buffer":
            what = rng.choice(["write", "write", "write", "outside-demand", "state"])
        elif kind == "factory":
            what = rng.choice(["write", "child-state", "child-zero", "gc"])
        else:
            what = rng.choice(["state", "state", "state-both"])
        op = {"t": t, "what": what}
        if what in ("write", "outside-demand"):
            op["value"] = rng.choice([0.0, 1.0, 2.0, 5.0, 8.0, 10.0, 64.0])
            if near_values:
                # values that differ in the last bits only: still different values
                op["value"] = rng.choice([0.3, 0.1 + 0.2, 1000.0, 1000.0000000001, 1e6, 1e6 + 1e-4, 1e12, 1e12 + 1.0, 64.0, 64.00000000000001])
        elif what == "state":
            op["attr"] = rng.choice(["supply", "utilisation", "allocation"])
            op["value"] = rng.choice(FRACTIONS) if op["attr"] != "supply" else rng.choice([0.0, 1.0, 2.0, 4.0, 8.0, 16.0, 50.0, 100.0])
        elif what == "state-both":
            op["utilisation"] = rng.choice(FRACTIONS)
            op["allocation"] = rng.choice(FRACTIONS)
        elif what == "child-state":
            op["child"] = rng.randint(0, 5)
            op["attr"] = rng.choice(["supply", "utilisation", "allocation"])
            op["value"] = rng.choice(FRACTIONS) if op["attr"] != "supply" else rng.choice([0.0, 1.0, 2.0, 4.0])
        elif what == "child-zero":
            op["child"] = rng.randint(0, 5)
        sc["script"].append(op)
    if kind in ("linear", "relsupply", "switch") and interval in (0.25, 0.5, 1.0, 2.0, 8.0, 30.0) and not sc.get("restart") and periods >= 4 and rng.random() < 0.15:
        # the interval attribute is re-assigned while the service runs (in the middle of a pause): the pause in
        # progress is not cut short, afterwards the service acts once per *new* interval
        k0 = rng.randint(0, periods - 2)
        sc["script"].append({"t": sc["start"] + k0 * interval + interval / 2, "what": "set-interval", "value": interval * rng.choice([0.5, 2.0, 4.0])})
    sc["script"].sort(key=lambda o: o["t"])
    return sc


def _gen_rule(rng):
    k = rng.choice(["none", "const", "delta", "supply"])
    if k == "const":
        return {"k": k, "v": rng.choice([0.0, 1.0, 10.0, 64.0])}
    if k == "delta":
        return {"k": k, "v": rng.choice([-1.0, 1.0, 0.5])}
    return {"k": k}


def _gen_slave(rng):
    # a slave's own interval is irrelevant under a switch (the switch is the
    # service; it steps the selected slave with the switch's interval): drawn
    # independently so that nothing may silently depend on the two being equal
    own = rng.choice([None, None, 0.25, 0.5, 2.0, 4.0])
    if rng.random() < 0.5:
        return {"k": "linear", "rate": rng.choice([0.5, 1.0, 2.0]), "low": 0.25, "high": 0.75, "own_interval_factor": own}
    return {"k": "relsupply", "low_scale": 0.5, "high_scale": 2.0, "low": 0.25, "high": 0.75, "own_interval_factor": own}


def _rule_ref(rule, state, interval):
    k = rule["k"]
    if k == "none":
        return None
    if k == "const":
        return rule["v"]
    if k == "delta":
        return state["demand"] + rule["v"] * interval
    if k == "supply":
        return state["supply"]
    raise ScenarioInvalid(k)


def _make_rule(world, idx, rule):
    def fn(pool, interval):
        world.log("rule-call", rule=idx, interval=interval, pool_is_target=pool is world.target)
        k = rule["k"]
        if k == "none":
            return None
        if k == "const":
            return rule["v"]
        if k == "delta":
            return pool.demand + rule["v"] * interval
        if k == "supply":
            return pool.supply
        raise ScenarioInvalid(k)

    fn.__name__ = "rule_%s" % idx
    return fn


def _linear_ref(p, state, interval):
    if state["utilisation"] < p["low"]:
        return state["demand"] - interval * p["rate"]
    if state["allocation"] > p["high"]:
        return state["demand"] + interval * p["rate"]
    return state["demand"]


def _relsupply_ref(p, state):
    if state["utilisation"] < p["low"]:
        return state["supply"] * p["low_scale"]
    if state["allocation"] > p["high"]:
        return state["supply"] * p["high_scale"]
    return state["supply"]


def run(scenario, tape_values):
    sc = scenario
    try:
        kind = sc["kind"]
        interval = float(sc["interval"])
        periods = int(sc["periods"])
        start = float(sc["start"])
        params = sc.get("params", {})
        script = sorted(sc.get("script", []), key=lambda o: o["t"])
        if interval <= 0 or periods < 1 or kind not in KINDS:
            raise ScenarioInvalid("bad basic parameters")
    except (KeyError, TypeError, ValueError) as err:
        raise ScenarioInvalid(str(err))
    world = World(sc, tape_values)
    pool = RecPool(world, "pool", **{k: float(v) for k, v in sc["pool"].items()})
    world.target = pool
    horizon = start + periods * interval
    children = []  # factory children
    ctx = {"service": None}

    def build():
        if kind == "linear":
            return LinearController(pool, low_utilisation=params["low_utilisation"], high_allocation=params["high_allocation"], rate=params["rate"], interval=interval)
        if kind == "relsupply":
            return RelativeSupplyController(pool, low_utilisation=params["low_utilisation"], high_allocation=params["high_allocation"], low_scale=params["low_scale"], high_scale=params["high_scale"], interval=interval)
        if kind == "stepwise":
            base = _make_rule(world, "base", params["base"])
            rules = [(r["supply"], _make_rule(world, i, r["rule"])) for i, r in enumerate(params["rules"])]
            if len({r[0] for r in rules}) != len(rules) or any(r[0] <= 0 for r in rules):
                raise ScenarioInvalid("duplicate thresholds")
            via = params.get("via", "direct")
            if via == "direct":
                return Stepwise(pool, base, *rules, interval=interval)
            unbound = stepwise(base)
            for th, fn in rules:
                unbound.add(fn, supply=th)
            if via == "call":
                return unbound(pool, interval=interval)
            return unbound.s(interval=interval) >> pool
        if kind == "switch":
            def mk(s):
                own = interval * (s.get("own_interval_factor") or 1)
                if s["k"] == "linear":
                    return LinearController(None, low_utilisation=s["low"], high_allocation=s["high"], rate=s["rate"], interval=own)
                return RelativeSupplyController(None, low_utilisation=s["low"], high_allocation=s["high"], low_scale=s["low_scale"], high_scale=s["high_scale"], interval=own)

            slaves = []
            ths = [s["demand"] for s in params["slaves"]]
            if len(set(ths)) != len(ths):
                raise ScenarioInvalid("duplicate thresholds")
            for s in params["slaves"]:
                slaves += [s["demand"], mk(s["ctrl"])]
            return DemandSwitch(pool, mk(params["default"]), *slaves, interval=interval)
        if kind == "buffer":
            return Buffer(pool, window=interval)
        if kind == "factory":
            made = iter(range(10**6))

            def factory():
                i = next(made)
                cd = params["child_demand"]
                if not cd:
                    raise ScenarioInvalid("no child demand")
                c = RecPool(world, "child%d" % len(children), supply=0.0, demand=float(cd[i % len(cd)]), utilisation=1.0, allocation=1.0)
                world.log("factory-call", child=c.name, demand=c._demand)
                if c._demand <= 0:
                    raise ScenarioInvalid("child demand must be positive")
                children.append(c)
                return c

            init = []
            for d in params["initial_children"]:
                c = RecPool(world, "child%d" % len(children), supply=float(d), demand=float(d), utilisation=1.0, allocation=1.0)
                children.append(c)
                init.append(c)
            fp = FactoryPool(*init, factory=factory, interval=interval)
            fp.demand = float(params["demand"])
            return fp
        raise ScenarioInvalid(kind)

    near_boundary = [0]

    async def env(world, nursery):
        await trio.sleep_until(start)
        service = build()
        ctx["service"] = service
        restart = sc.get("restart")
        if restart:
            nursery = await nursery.start(_holder)  # a nursery of its own: cancelled at the horizon
        await start_service(world, nursery, "service", service, "C09/run-raised/" + kind + "/%s")
        for op in script:
            t = float(op["t"])
            if t > horizon:
                break
            await trio.sleep_until(max(t, start))
            k = (t - start) / interval
            if abs(k - round(k)) * interval <= interval / 8 + 1e-12:
                near_boundary[0] += 1
            what = op["what"]
            world.op = what
            try:
                if what == "state":
                    pool.poke(op["attr"], float(op["value"]))
                elif what == "state-both":
                    pool.poke("utilisation", float(op["utilisation"]))
                    pool.poke("allocation", float(op["allocation"]))
                elif what == "write":
                    world.log("env-write", value=float(op["value"]))
                    service.demand = float(op["value"])
                elif what == "outside-demand":
                    pool.poke("demand", float(op["value"]))
                elif what == "child-state":
                    if children:
                        children[op["child"] % len(children)].poke(op["attr"], float(op["value"]))
                elif what == "child-zero":
                    if children:
                        children[op["child"] % len(children)].poke("demand", 0.0)
                elif what == "set-interval":
                    service.interval = float(op["value"])
                    world.log("interval-set", value=float(op["value"]))
                elif what == "gc":
                    gc.collect()
                    world.count_fault("gc")
                else:
                    raise ScenarioInvalid(what)
            finally:
                world.op = None
        await trio.sleep_until(horizon + interval / 4)
        world.log("horizon")
        if restart:
            nursery.cancel_scope.cancel()
            start2 = horizon + interval / 4 + restart["gap"]
            await trio.sleep_until(start2)
            world.log("restart", start2=start2)
            seg2 = await ctx["outer"].start(_holder)
            await start_service(world, seg2, "service", service, "C09/run-raised/" + kind + "/%s")
            await trio.sleep_until(start2 + restart["periods"] * interval + interval / 4)
            world.log("horizon2")
            seg2.cancel_scope.cancel()

    async def factory_observer(world):
        # after every boundary: who is active, what do they demand, what was requested
        for k in range(1, periods + 1):
            await trio.sleep_until(start + k * interval + interval / 16)
            fp = ctx["service"]
            if fp is None:
                continue
            try:
                active = sorted((c.name, c._demand) for c in fp._hatchery)
            except AttributeError:
                return
            world.log("factory-state", k=k, active=active, requested=fp._demand)

    async def _holder(task_status=trio.TASK_STATUS_IGNORED):
        async with trio.open_nursery() as inner:
            task_status.started(inner)
            await trio.sleep_forever()

    async def main(world, nursery):
        ctx["outer"] = nursery
        if kind == "factory":
            nursery.start_soon(factory_observer, world, name="observer")
        await env(world, nursery)

    try:
        world.run(main)
    except ScenarioInvalid:
        if not getattr(world, "step_capped", False) or not (interval > 0):
            raise
        # a periodic service that takes step after step without ever letting (virtual) time pass:
        # with a positive interval that is "more than one step per interval", whatever else it does
        last = world.events[-1]["t"] if world.events else start
        world.violate("C09/service-spins/%s" % kind, "the %s service (interval %r) performed hundreds of thousands of scheduling steps at t=%r without letting time pass" % (kind, interval, last))
        return finish(world, ["C09-spin", kind, interval], True)
    rs = next((e for e in world.events if e["kind"] == "restart"), None)
    if rs is not None:
        # second life of the same service object: judged on its own, against its own start
        seg2 = [e for e in world.events if e["seq"] > rs["seq"]]
        world.events[:] = [e for e in world.events if e["seq"] < rs["seq"]]
        _canonical_times(seg2, rs["start2"], interval)
        _oracle_restart(world, seg2, kind, interval, sc["restart"]["periods"], rs["start2"])
    _canonical_times(world.events, start, interval)
    _oracle(world, sc, kind, interval, periods, start, params, horizon)
    shape = _shape(world, sc, kind, interval, start)
    return finish(world, shape, near_boundary[0] > 0 and periods >= 3)


def _factory_observable(ev, params, t):
    """An adjustment touches the children (supply reads) or calls the factory; with
    no child at all and no demand it cannot be observed from outside."""
    nchildren = len(params.get("initial_children", []))
    demand = float(params.get("demand", 0.0))
    for e in ev:
        if e["t"] > t:
            break
        if e["kind"] == "factory-call":
            nchildren += 1
        elif e["kind"] == "env-write" and e["t"] < t:
            demand = e["value"]
        elif e["kind"] == "env-write":
            return nchildren > 0  # same-instant write: either order is legitimate
    return nchildren > 0 or demand > 0


def _canonical_times(events, start, interval):
    """A loop of sleep(interval) reaches start + interval + interval + ..., which for an interval
    that is not a binary fraction differs from start + k * interval in the last bits.  Event times
    within 1e-9 intervals of a boundary are relabelled with the boundary's canonical value so that
    the oracle can keep comparing instants exactly; the order of events is left as observed."""
    for e in events:
        t = e.get("t")
        if t is None:
            continue
        k = round((t - start) / interval)
        b = start + k * interval
        if t != b and abs(t - b) <= 1e-9 * interval:
            e["t"] = b


def _shape(world, sc, kind, interval, start):
    ops = []
    svc_seq_at = {}
    for e in world.events:
        if e["actor"] == "service" and e["kind"] in ("read", "write", "rule-call", "factory-call"):
            svc_seq_at.setdefault(e["t"], e["seq"])
    for e in world.events:
        if e["actor"] == "main" or e.get("op"):
            if e["kind"] in ("env-set", "env-write"):
                k = (e["t"] - start) / interval
                frac = k - int(k)
                cls = "on" if frac == 0 else ("after" if frac <= 0.125 else ("before" if frac >= 0.875 else "off"))
                order = ""
                if cls == "on" and e["t"] in svc_seq_at:
                    order = "<svc" if e["seq"] < svc_seq_at[e["t"]] else ">svc"
                ops.append((e.get("op"), cls, order))
    periods = sc["periods"]
    bucket = periods if periods <= 12 else (periods // 20) * 20
    return [kind, interval, bucket, sorted(set(ops)), len(ops), sc.get("params", {}).get("via")]


def _oracle_restart(world, ev, kind, interval, periods, start):
    """After a cancel + restart the service acts at start2 + k * interval again (controllers: from
    k = 0, "one regulation step immediately"), and nowhere else."""
    V = world.violate
    svc = [e for e in ev if e["actor"] == "service" and e["kind"] in ("read", "write", "rule-call", "factory-call")]
    first_k = 0 if kind in ("linear", "relsupply", "stepwise", "switch") else 1
    expected = [start + k * interval for k in range(first_k, periods + 1)]
    allowed = set(expected) | {start}
    for e in svc:
        if e["t"] not in allowed and e["t"] <= start + periods * interval:
            V("C09/off-boundary-touch/%s/restarted" % kind, "restarted service touched %s at t=%r, not on %r + k*%r" % (e.get("pool", e["kind"]), e["t"], start, interval))
            return
    if kind in ("linear", "relsupply", "stepwise", "switch"):
        touched = {e["t"] for e in svc}
        for t in expected:
            if t not in touched:
                V("C09/missed-period/%s/restarted" % kind, "no regulation step of the restarted service at t=%r (restart at %r, interval %r, k=%r)" % (t, start, interval, (t - start) / interval))
                return


def _oracle(world, sc, kind, interval, periods, start, params, horizon):
    V = world.violate
    ev = world.events
    first_k = 1 if kind == "factory" else 0
    expected = [start + k * interval for k in range(first_k, periods + 1)]
    ivl_at = {t: interval for t in expected}
    change = next((e for e in ev if e["kind"] == "interval-set"), None)
    if change is not None:
        # every pause lasts as long as the interval was when the pause began
        expected, ivl_at, t = [], {}, start
        while t <= horizon:
            cur = change["value"] if change["t"] < t else interval
            expected.append(t)
            ivl_at[t] = cur
            t = t + cur
    expected_set = set(expected) | {start}  # acting at the start instant as well is not ruled out for a FactoryPool
    svc = [e for e in ev if e["actor"] == "service" and e["kind"] in ("read", "write", "rule-call", "factory-call")]
    raised = [e for e in ev if e["kind"] in ("service-raised", "service-returned")]
    # 1. every touch of the service task happens at a period boundary
    for e in svc:
        if e["t"] not in expected_set and e["t"] <= horizon:
            V("C09/off-boundary-touch/%s" % kind, "service touched %s at t=%r which is not start+k*interval (start=%r interval=%r)" % (e.get("pool", e["kind"]), e["t"], start, interval))
            break
    if raised:
        return  # already reported by start_service; later periods are moot
    # 2. bursts: contiguous runs of service events
    bursts = []
    cur = None
    state = dict(sc["pool"])
    state = {k: float(v) for k, v in state.items()}
    child_state = {}
    for e in ev:
        is_svc = e["actor"] == "service" and e["kind"] in ("read", "write", "rule-call", "factory-call")
        if is_svc:
            if cur is None or cur["t"] != e["t"] or cur["closed"]:
                cur = {"t": e["t"], "events": [], "before": dict(state), "closed": False}
                bursts.append(cur)
            cur["events"].append(e)
        else:
            if cur is not None:
                cur["closed"] = True
        # track pool state
        if e.get("pool") == "pool":
            if e["kind"] == "env-set":
                state[e["attr"]] = e["value"]
            elif e["kind"] == "write":
                state["demand"] = e["value"]
        if cur is not None and is_svc:
            cur["after"] = dict(state)
    by_t = {}
    for b in bursts:
        by_t.setdefault(b["t"], []).append(b)
    for t in expected:
        bs = by_t.get(t, [])
        if len(bs) == 0:
            if kind == "factory" and not _factory_observable(ev, params, t):
                continue  # no child and nothing requested: an adjustment leaves no trace to observe
            V("C09/missed-period/%s" % kind, "no action of the service at boundary t=%r (start=%r, interval=%r, k=%r)" % (t, start, interval, (t - start) / interval))
            return
        if len(bs) > 1:
            V("C09/double-step/%s" % kind, "%d separate steps of the service at boundary t=%r" % (len(bs), t))
            return
    # 3. one regulation step's worth of effect per boundary
    if kind in ("linear", "relsupply", "stepwise", "switch"):
        for t in expected:
            b = by_t[t][0]
            before = b["before"]
            writes = [e for e in b["events"] if e["kind"] == "write"]
            after_demand = b.get("after", before)["demand"]
            if kind == "linear":
                p = {"low": params["low_utilisation"], "high": params["high_allocation"], "rate": params["rate"]}
                want = _linear_ref(p, before, ivl_at[t])
            elif kind == "relsupply":
                p = {"low": params["low_utilisation"], "high": params["high_allocation"], "low_scale": params["low_scale"], "high_scale": params["high_scale"]}
                want = _relsupply_ref(p, before)
            elif kind == "switch":
                chosen = params["default"]
                for s in sorted(params["slaves"], key=lambda s: s["demand"]):
                    if s["demand"] <= before["demand"]:
                        chosen = s["ctrl"]
                if chosen["k"] == "linear":
                    want = _linear_ref(chosen, before, ivl_at[t])
                else:
                    want = _relsupply_ref(chosen, before)
            else:  # stepwise
                rule, ridx = params["base"], "base"
                best = None
                for i, r in enumerate(params["rules"]):
                    if r["supply"] <= before["supply"] and (best is None or r["supply"] > best):
                        best, rule, ridx = r["supply"], r["rule"], i
                calls = [e for e in b["events"] if e["kind"] == "rule-call"]
                if len(calls) != 1 or calls[0]["rule"] != ridx:
                    V("C09/stepwise-rule/%s" % kind, "at t=%r supply=%r expected exactly one call of rule %r, saw %r" % (t, before["supply"], ridx, [c["rule"] for c in calls]))
                    return
                if calls[0]["interval"] != interval or not calls[0]["pool_is_target"]:
                    V("C09/stepwise-args/%s" % kind, "rule called with interval=%r target-identity=%r" % (calls[0]["interval"], calls[0]["pool_is_target"]))
                    return
                r = _rule_ref(rule, before, interval)
                want = before["demand"] if r is None else r
                if r is None and writes:
                    V("C09/stepwise-none-wrote/%s" % kind, "rule returned None at t=%r but demand was written" % t)
                    return
            if after_demand != want:
                V("C09/step-effect/%s" % kind, "at boundary t=%r pool state %r: demand became %r, one regulation step gives %r" % (t, before, after_demand, want))
                return
    if kind == "linear":
        # demand changes by at most rate*(span+interval) over any span
        rate = params["rate"]
        pts = []
        d = float(sc["pool"]["demand"])
        pts.append((start, d))
        for e in ev:
            if e.get("pool") == "pool" and e["kind"] == "write":
                pts.append((e["t"], e["value"]))
        for i in range(len(pts)):
            for j in range(i + 1, len(pts)):
                span = pts[j][0] - pts[i][0]
                if abs(pts[j][1] - pts[i][1]) > rate * (span + max(ivl_at.values())) * (1 + 1e-9):
                    V("C09/linear-rate-bound", "demand moved %r -> %r within span %r; bound rate*(span+interval)=%r" % (pts[i][1], pts[j][1], span, rate * (span + interval)))
                    return
            if len(pts) > 400:
                break
    if kind == "buffer":
        # nothing forwarded between boundaries: every write to the pool other than an outside change is a
        # write by the service task at a boundary
        last_written = float(sc["pool"]["demand"])  # Buffer starts from target.demand at construction
        pool_demand = float(sc["pool"]["demand"])
        idx = 0
        for e in ev:
            if e["kind"] == "env-write":
                pending = e["value"]
                last_written_candidate = pending
                last_written = last_written_candidate
            if e.get("pool") == "pool" and e["kind"] == "write":
                if e["actor"] != "service" or e["t"] not in expected_set:
                    V("C09/buffer-early-forward", "write of %r reached the target at t=%r by %s during %r (not a window boundary step)" % (e["value"], e["t"], e["actor"], e.get("op")))
                    return
        # at every boundary the target's demand equals the value most recently written before the comparison read
        for t in expected:
            b = by_t[t][0]
            first_seq = b["events"][0]["seq"]
            lw = float(sc["pool"]["demand"])
            for e in ev:
                if e["seq"] >= first_seq:
                    break
                if e["kind"] == "env-write":
                    lw = e["value"]
            after_demand = b.get("after", b["before"])["demand"]
            if after_demand != lw:
                V("C09/buffer-stale", "after the window boundary t=%r the target's demand is %r, most recently written was %r" % (t, after_demand, lw))
                return
    if kind == "factory":
        # one adjustment's worth of effect at every boundary (details are C15's): afterwards no active child is
        # left without demand (both branches of an adjustment reap; whether it grows or shrinks enough is C15's).  Boundaries at which the environment
        # acted in the same instant *after* the adjustment are skipped (either order is legitimate).
        for e in ev:
            if e["kind"] != "factory-state":
                continue
            t = start + e["k"] * interval
            bs = by_t.get(t, [])
            if not bs:
                continue
            last_svc = bs[-1]["events"][-1]["seq"]
            if any(x["t"] == t and x["seq"] > last_svc and x.get("op") in ("write", "child-zero", "child-state") for x in ev):
                continue
            idle = [n for n, d in e["active"] if d <= 0]
            if idle:
                V("C09/factory-adjustment-effect/idle-child-kept", "after the adjustment at t=%r child %s has no demand left but is still active" % (t, idle[0]))
                return

