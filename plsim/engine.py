"""plsim engine: dispatch per property. Worlds are single-threaded and leave
nothing behind, so they run inside the worker process itself."""
import importlib
import signal
import time
import traceback

from simkit.util import digest

from . import world as _world
from .world import ScenarioInvalid

_MODULES = {"C09": "c09", "C15": "c15", "C16": "c16", "C06": "c06", "C07": "c07", "C08": "c08"}
_loaded = {}


def _mod(prop):
    if prop not in _loaded:
        _loaded[prop] = importlib.import_module("plsim." + _MODULES[prop])
    return _loaded[prop]


def gen(prop, seed, tier):
    return _mod(prop).gen(seed, tier)


class Hang(BaseException):
    """The simulated world stopped making progress in real time: the process is blocked (no CPU
    time used for a whole watchdog period) or has been computing for minutes.  Virtual time, step
    caps and the tape bound everything the simulator schedules; a call into the code under test
    that never comes back (a lock taken twice, an endless loop without a checkpoint) is only
    bounded by this watchdog."""


TICK_S = 10.0
SPIN_CPU_S = 120.0


class _Watchdog:
    def __init__(self):
        self.fired = None

    def _where(self, frame):
        inner = None
        f = frame
        while f is not None:
            fn = f.f_code.co_filename.replace("\\", "/")
            if "/cobald/" in fn:
                return "%s:%s" % (fn.rsplit("/", 1)[-1], f.f_code.co_name)
            if inner is None:
                inner = "%s:%s" % (fn.rsplit("/", 1)[-1], f.f_code.co_name)
            f = f.f_back
        return inner or "?"

    def _tick(self, signum, frame):
        cpu = time.process_time()
        if cpu - self.last_cpu < 0.05:
            self.fired = ("blocked", self._where(frame), time.monotonic() - self.t0)
        elif cpu - self.cpu0 > SPIN_CPU_S:
            self.fired = ("spins", self._where(frame), time.monotonic() - self.t0)
        self.last_cpu = cpu
        if self.fired:
            signal.setitimer(signal.ITIMER_REAL, 0)
            raise Hang(self.fired)

    def __enter__(self):
        self.cpu0 = self.last_cpu = time.process_time()
        self.t0 = time.monotonic()
        self.old = signal.signal(signal.SIGALRM, self._tick)
        signal.setitimer(signal.ITIMER_REAL, TICK_S, TICK_S)
        return self

    def __exit__(self, *exc):
        signal.setitimer(signal.ITIMER_REAL, 0)
        signal.signal(signal.SIGALRM, self.old)
        return False


def _hang_result(prop, wd):
    how, where, wall = wd.fired
    w = _world.CURRENT["world"]
    events = list(w.events) if w is not None else []
    op = getattr(w, "op", None) if w is not None else None
    key = "%s/never-returns/%s/%s" % (prop, how, where)
    msg = "the world stopped making progress in %s (%s): %s after %d recorded events%s" % (
        where,
        "blocked, no CPU time used for %.0f s of real time" % TICK_S if how == "blocked" else "more than %.0f s of CPU time without returning to the simulator" % SPIN_CPU_S,
        "an operation of the code under test never returns",
        len(events),
        " (during operation %r)" % (op,) if op is not None else "",
    )
    tape = w.tape.recorded() if w is not None else []
    return {
        "violations": [{"key": key, "msg": msg}],
        "digest": digest([digest(events), "hang", how, where]),
        "tape": tape,
        "stats": {"steps": len(events), "vsec": max([e["t"] for e in events] or [0.0]), "faults": dict(getattr(w, "faults", {}) or {}), "probes": {"watchdog-hang": 1}, "strategy": "trio-batch-shuffle"},
        "sig": digest(["hang", key, digest(tape)]),
        "nontrivial": True,
        "events": events[-400:],
    }


def execute(prop, scenario, tape):
    wd = _Watchdog()
    _world.CURRENT["world"] = None
    try:
        with wd:
            res = _mod(prop).run(scenario, tape)
        if wd.fired:
            # the interruption was absorbed by a handler for "anything a service may raise"
            return _hang_result(prop, wd)
        return res
    except ScenarioInvalid as err:
        if wd.fired:
            return _hang_result(prop, wd)
        return {"violations": [], "invalid": str(err), "digest": "invalid", "tape": [], "stats": {}, "sig": None, "nontrivial": False}
    except BaseException as err:
        if wd.fired:
            # whatever the interruption turned into on its way out of trio
            return _hang_result(prop, wd)
        return {"harness_error": "%s: %s\n%s" % (type(err).__name__, err, traceback.format_exc()[-1500:])}
