"""plsim engine: dispatch per property. Worlds are single-threaded and leave
nothing behind, so they run inside the worker process itself."""
import importlib
import traceback

from .world import ScenarioInvalid

_MODULES = {"C09": "c09", "C15": "c15", "C16": "c16", "C06": "c06", "C07": "c07", "C08": "c08"}
_loaded = {}


def _mod(prop):
    if prop not in _loaded:
        _loaded[prop] = importlib.import_module("plsim." + _MODULES[prop])
    return _loaded[prop]


def gen(prop, seed, tier):
    return _mod(prop).gen(seed, tier)


def execute(prop, scenario, tape):
    try:
        return _mod(prop).run(scenario, tape)
    except ScenarioInvalid as err:
        return {"violations": [], "invalid": str(err), "digest": "invalid", "tape": [], "stats": {}, "sig": None, "nontrivial": False}
    except BaseException as err:
        return {"harness_error": "%s: %s\n%s" % (type(err).__name__, err, traceback.format_exc()[-1500:])}
