"""plsim core: one trio.run per world under trio's virtual clock, single thread.

Everything nondeterministic is owned here:
  * time      -> trio.testing.MockClock(autojump_threshold=0)
  * task order-> trio's deterministic-scheduling switch + tape-driven shuffle
  * GC        -> disabled; collected only by scripted `gc` actions
"""
import gc
import logging
import random

from simkit.util import Tape, digest, setup_cobald_path

setup_cobald_path()

import trio  # noqa: E402
import trio.abc  # noqa: E402
import trio.testing  # noqa: E402
import trio._core._run as _trio_run  # noqa: E402

from cobald.interfaces import Pool  # noqa: E402


class ScenarioInvalid(Exception):
    pass


class _TapeShuffler:
    """Stands in for trio's module-level `_r` (a random.Random)."""

    def __init__(self):
        self.tape = None
        self.batches = 0
        self.choices = 0

    def shuffle(self, batch):
        n = len(batch)
        if n < 2 or self.tape is None:
            return
        self.batches += 1
        for i in range(n - 1, 0, -1):
            j = self.tape.take(i + 1)
            if j != i:
                self.choices += 1
            batch[i], batch[j] = batch[j], batch[i]

    def random(self):  # used only when deterministic scheduling is off
        return 0.0


_SHUFFLER = _TapeShuffler()
_trio_run._ALLOW_DETERMINISTIC_SCHEDULING = True
_trio_run._r = _SHUFFLER


class _StepCap(trio.abc.Instrument):
    """Bounds a world: a service spinning on zero-length sleeps would otherwise never let the
    virtual clock move (step caps bound runs; they are never a verdict)."""

    def __init__(self, world, cap):
        self.world = world
        self.cap = cap
        self.n = 0

    def before_task_step(self, task):
        self.n += 1
        if self.n == self.cap:
            self.world.step_capped = True
            if self.world.root_scope is not None:
                self.world.root_scope.cancel()


CURRENT = {"world": None}


class World:
    def __init__(self, scenario, tape_values):
        CURRENT["world"] = self
        self.scenario = scenario
        self.tape = Tape(tape_values, seed=scenario.get("seed", 0) ^ 0x5EED)
        self.events = []
        self.seq = 0
        self.violations = []
        self.op = None  # the environment operation being executed, if any
        self.faults = {}
        self.probes = {}
        self._now = None
        self.step_capped = False
        self.root_scope = None
        # identity hashes are address dependent: objects that end up in sets get a seeded hash instead
        self.hash_rng = random.Random(scenario.get("seed", 0) ^ 0xA5A5)

    # -- logging ---------------------------------------------------------
    def actor(self):
        try:
            return trio.lowlevel.current_task().name
        except RuntimeError:
            return "setup"

    def now(self):
        try:
            return trio.current_time()
        except RuntimeError:
            return -1.0

    def log(self, kind, **data):
        self.seq += 1
        ev = {"seq": self.seq, "t": self.now(), "actor": self.actor(), "kind": kind}
        if self.op is not None:
            ev["op"] = self.op
        ev.update(data)
        self.events.append(ev)
        return ev

    def token(self, obj):
        """Small deterministic integer standing for an object's identity."""
        if obj is None:
            return None
        toks = self.__dict__.setdefault("_tokens", [])
        for i, o in enumerate(toks):
            if o is obj:
                return i
        toks.append(obj)
        return len(toks) - 1

    def violate(self, key, msg):
        if not any(v["key"] == key for v in self.violations):
            self.violations.append({"key": key, "msg": msg})

    def count_fault(self, kind, n=1):
        self.faults[kind] = self.faults.get(kind, 0) + n

    def probe(self, name, n=1):
        self.probes[name] = self.probes.get(name, 0) + n

    # -- running ---------------------------------------------------------
    def run(self, main):
        """Run `main(world, nursery)` inside trio under the virtual clock."""
        _SHUFFLER.tape = self.tape
        _SHUFFLER.batches = 0
        _SHUFFLER.choices = 0
        gc_was = gc.isenabled()
        gc.disable()
        clock = trio.testing.MockClock(autojump_threshold=0)
        try:

            async def _root():
                async with trio.open_nursery() as nursery:
                    self.root_scope = nursery.cancel_scope
                    await main(self, nursery)
                    nursery.cancel_scope.cancel()

            trio.run(_root, clock=clock, instruments=[_StepCap(self, 50000)])
        finally:
            _SHUFFLER.tape = None
            if gc_was:
                gc.enable()
        if self.step_capped:
            raise ScenarioInvalid("step cap reached (a service spins without letting time pass)")
        self.probes["trio_batches_shuffled"] = _SHUFFLER.batches
        self.probes["nonidentity_swaps"] = _SHUFFLER.choices


class RecPool(Pool):
    """Leaf pool of the harness: every access is an event."""

    def __init__(self, world, name, supply=0.0, demand=0.0, utilisation=1.0, allocation=1.0):
        self._w = world
        self.name = name
        self._supply = supply
        self._demand = demand
        self._utilisation = utilisation
        self._allocation = allocation
        self.writes = 0
        self._hash = world.hash_rng.getrandbits(48)

    def __hash__(self):
        return self._hash

    def __eq__(self, other):
        return self is other

    def state(self):
        return {"supply": self._supply, "demand": self._demand, "utilisation": self._utilisation, "allocation": self._allocation}

    def poke(self, attr, value):
        """Environment changes the pool's own state (not through the property)."""
        setattr(self, "_" + attr, value)
        self._w.log("env-set", pool=self.name, attr=attr, value=value)

    @property
    def supply(self):
        self._w.log("read", pool=self.name, attr="supply", value=self._supply)
        return self._supply

    @property
    def demand(self):
        self._w.log("read", pool=self.name, attr="demand", value=self._demand)
        return self._demand

    @demand.setter
    def demand(self, value):
        old = self._demand
        self._demand = value
        self.writes += 1
        self._w.log("write", pool=self.name, attr="demand", value=value, old=old, vtype=type(value).__name__)

    @property
    def utilisation(self):
        self._w.log("read", pool=self.name, attr="utilisation", value=self._utilisation)
        return self._utilisation

    @property
    def allocation(self):
        self._w.log("read", pool=self.name, attr="allocation", value=self._allocation)
        return self._allocation

    def __repr__(self):
        return "RecPool(%s)" % self.name


def _has(mapping, key):
    try:
        mapping[key]
        return True
    except Exception:
        return False


class CaptureHandler(logging.Handler):
    def __init__(self, world):
        super().__init__(level=0)
        self._w = world
        self.records = []

    @staticmethod
    def snapshot(record):
        args = record.args if isinstance(record.args, dict) else {}
        out = {}
        for k in ("value", "demand", "supply", "utilisation", "allocation"):
            try:
                v = args[k]
            except Exception:
                continue
            out[k] = v if isinstance(v, (int, float, str, type(None))) else type(v).__name__
        return out

    def emit(self, record):
        self.records.append(record)
        args = record.args if isinstance(record.args, dict) else {}
        record._verif_seq = self._w.seq + 1
        record._verif_snapshot = self.snapshot(record)
        self._w.log(
            "log-record",
            target_tok=self._w.token(args.get("target")),
            logger=record.name,
            level=record.levelno,
            msg=record.msg,
            args={k: (args[k] if isinstance(args[k], (int, float, str, type(None))) else type(args[k]).__name__) for k in list(args.keys()) + [x for x in ("value", "demand", "supply", "utilisation", "allocation") if x not in args and _has(args, x)]},
        )


async def start_service(world, nursery, name, service, raised_key):
    """Run service.run() as a named task; an exception leaving run() is an event."""

    async def _run():
        world.log("service-start", service=name)
        try:
            await service.run()
        except trio.Cancelled:
            raise
        except BaseException as err:
            world.log("service-raised", service=name, exc=type(err).__name__, text=str(err)[:200])
            if raised_key:
                world.violate(raised_key % type(err).__name__, "%s.run() raised %s: %s" % (name, type(err).__name__, str(err)[:200]))
        else:
            world.log("service-returned", service=name)
            if raised_key:
                world.violate(raised_key % "returned", "%s.run() returned" % name)

    nursery.start_soon(_run, name=name)


# -- value pools for generators -------------------------------------------
def dyadic(rng, lo_exp=-3, hi_exp=6, signed=False):
    """A 'nice' dyadic rational k * 2**e — all arithmetic on them stays exact."""
    e = rng.randint(lo_exp, hi_exp)
    k = rng.randint(0, 16)
    v = k * (2.0**e)
    if signed and rng.random() < 0.5:
        v = -v
    return v


def finish(world, shape, nontrivial, extra_stats=None):
    tape = world.tape.recorded()
    stats = {
        "steps": len(world.events),
        "vsec": max([e["t"] for e in world.events] or [0.0]),
        "faults": world.faults,
        "probes": world.probes,
        "strategy": "trio-batch-shuffle",
    }
    if extra_stats:
        stats.update(extra_stats)
    return {
        "violations": world.violations,
        "digest": digest(world.events),
        "tape": tape,
        "stats": stats,
        "sig": digest([shape, digest(tape)]),
        "nontrivial": bool(nontrivial),
        "events": world.events[-400:],
    }
