"""C16 — decorators are transparent except for what they are meant to change."""
import logging
import random
import warnings

import trio

from .world import World, RecPool, ScenarioInvalid, start_service, finish, CaptureHandler

from cobald.interfaces import PoolDecorator
from cobald.decorator.logger import Logger
from cobald.decorator.standardiser import Standardiser
from cobald.decorator.buffer import Buffer

KNOWN = ["value", "demand", "supply", "utilisation", "allocation", "target"]
TEMPLATES_OK = [
    None,
    "set %(value)s",
    "adjust demand from %(demand)s to %(value)s",
    "%(value)s %(demand)s %(supply)s %(utilisation).2f %(allocation).3f",
    "%(target)s <- %(value)r",
    "no fields at all",
    "100%% of %(supply)s",
    "old style %(consumption)s",
]
TEMPLATES_BAD = ["%(foo)s", "%(Value)s", "%(pool)s %(value)s", "%(demand)s and %(demands)s", "%(utilization)s", "%(value)s %()s"]
VALS = [0.0, 1.0, 2.0, 2.5, 4.0, 8.0, 10.0, 100.0, 3, 7, 0]
FR = [0.0, 0.25, 0.5, 0.75, 1.0]


def gen(seed, tier):
    rng = random.Random(seed)
    depth = rng.randint(0, 5)
    stack = []
    for i in range(depth):
        k = rng.choice(["plain", "plain", "logger", "logger", "standardiser", "buffer"])
        e = {"k": k}
        if k == "logger":
            e["name"] = rng.choice([None, "verif.c16.a", "verif.c16.b", "verif.c16.%d" % i, ""])  # "" is the root logger
            e["level"] = rng.choice([1, 10, 20, 25, 50])
            e["message"] = rng.choice(TEMPLATES_OK)
        elif k == "standardiser":
            e["params"] = rng.choice([{}, {}, {"minimum": 1}, {"maximum": 8}, {"granularity": 2}, {"surplus": 2, "backlog": 2}])
        elif k == "buffer":
            e["window"] = rng.choice([0.5, 1.0, 2.0])
        stack.append(e)
    ops = []
    t = 0.0
    reconf_world = rng.random() < 0.15
    # logger names whose logging.Logger is set above every level used: nothing is emitted on them,
    # the demand write goes through all the same
    muted = sorted(rng.sample(["verif.c16.a", "verif.c16.b", "verif.c16.renamed", ""], rng.randint(1, 2))) if rng.random() < 0.15 else []
    for _ in range(rng.randint(1, 12) if rng.random() < 0.8 else rng.randint(13, 40)):
        t += rng.choice([0.0, 0.0, 0.25, 0.5, 1.0])
        k = rng.choice(["write", "write", "write", "read", "read", "state", "outside"] + (["reconf"] if reconf_world else []))
        if k == "reconf":
            # a Logger's name / level are plain attributes: changed between two writes, later
            # records go to the new logger at the new level
            ops.append({"t": t, "k": k, "which": rng.randrange(6), "name": rng.choice(["keep", "verif.c16.a", "verif.c16.b", "verif.c16.renamed", ""]), "level": rng.choice(["keep", 10, 20, 30])})
        elif k == "write":
            ops.append({"t": t, "k": k, "value": rng.choice(VALS)})
        elif k == "read":
            ops.append({"t": t, "k": k})
        elif k == "state":
            ops.append({"t": t, "k": k, "supply": rng.choice([0.0, 1.0, 4.0, 8.0, 3]), "utilisation": rng.choice(FR), "allocation": rng.choice(FR)})
        else:
            ops.append({"t": t, "k": k, "value": rng.choice(VALS)})
    probes = [{"message": rng.choice(TEMPLATES_BAD + TEMPLATES_OK[1:]), "level": rng.choice([10, 20])} for _ in range(rng.randint(0, 3))]
    return {"prop": "C16", "seed": seed, "muted": muted, "stack": stack, "ops": ops, "template_probes": probes, "pool": {"supply": rng.choice([0.0, 4.0, 8.0]), "demand": rng.choice([0.0, 2.0, 5]), "utilisation": rng.choice(FR), "allocation": rng.choice(FR)}}


def template_ok(msg):
    """Independent judgement: does the %-template only name documented (incl. deprecated) fields?"""
    import re

    if msg is None:
        return True
    names = re.findall(r"%\(([^)]*)\)", msg.replace("%%", ""))
    return all(n in KNOWN + ["consumption"] for n in names)


def run(scenario, tape_values):
    sc = scenario
    try:
        stack = sc["stack"]
        ops = sorted(sc["ops"], key=lambda o: o["t"])
    except (KeyError, TypeError) as err:
        raise ScenarioInvalid(str(err))
    world = World(sc, tape_values)
    V = world.violate
    pool = RecPool(world, "pool", **sc["pool"])
    handlers = {}
    loggers_touched = []
    muted_names = set(sc.get("muted") or [])

    def prepare_logger(name):
        lg = logging.getLogger(name)
        if name not in handlers:
            h = CaptureHandler(world)
            handlers[name] = h
            lg.addHandler(h)
            lg.setLevel(60 if name in muted_names else 1)
            lg.propagate = False
            lg.disabled = False
            loggers_touched.append((lg, h))
        return lg

    objs = []
    services = []
    target = pool
    with warnings.catch_warnings():
        warnings.simplefilter("ignore")
        for i, e in reversed(list(enumerate(stack))):
            k = e["k"]
            if k == "plain":
                target = PoolDecorator(target)
            elif k == "logger":
                name = e["name"] if e.get("name") is not None else type(target).__qualname__
                prepare_logger(name)
                name = name or "root"  # records emitted through logging.getLogger("") carry the name "root"
                kw = {"name": e.get("name"), "level": e["level"]}
                if e.get("message") is not None:
                    kw["message"] = e["message"]
                try:
                    target = Logger(target, **kw)
                except RuntimeError:
                    raise ScenarioInvalid("template rejected")
                e["_resolved_name"] = name
                e["_target_tok"] = world.token(target.target)
            elif k == "standardiser":
                try:
                    target = Standardiser(target, **e.get("params", {}))
                except ValueError:
                    raise ScenarioInvalid("standardiser params")
            elif k == "buffer":
                target = Buffer(target, window=e["window"])
                services.append(target)
            else:
                raise ScenarioInvalid(k)
            objs.insert(0, target)
        top = target
        # template validation at construction
        for pr in sc.get("template_probes", []):
            msg = pr.get("message")
            ok = template_ok(msg)
            # every construction is judged, not only the first one with a given template in this process
            for attempt in (1, 2):
                try:
                    Logger(RecPool(world, "probe"), name="verif.c16.probe", message=msg, level=pr.get("level", 20)) if msg is not None else Logger(RecPool(world, "probe"))
                    raised = None
                except RuntimeError:
                    raised = "RuntimeError"
                except Exception as err:
                    raised = type(err).__name__
                if ok and raised:
                    V("C16/template-wrongly-rejected", "template %r only names documented fields but constructing the Logger raised %s (construction %d with this template)" % (msg, raised, attempt))
                if not ok and raised is None:
                    V("C16/template-not-rejected", "template %r names an unknown field but the Logger was constructed (construction %d with this template in this world)" % (msg, attempt))

    kinds = [e["k"] for e in stack]
    transparent_all = all(k in ("plain", "logger") for k in kinds)
    # bottom segment: maximal suffix of plain/logger elements (nearest to the pool)
    bottom_start = len(kinds)
    while bottom_start > 0 and kinds[bottom_start - 1] in ("plain", "logger"):
        bottom_start -= 1
    top_end = 0
    while top_end < len(kinds) and kinds[top_end] in ("plain", "logger"):
        top_end += 1
    bottom_loggers = [(i, stack[i]) for i in range(bottom_start, len(kinds)) if kinds[i] == "logger"]
    top_loggers = [(i, stack[i]) for i in range(0, top_end) if kinds[i] == "logger" and i < bottom_start]

    first_buffer = kinds.index("buffer") if "buffer" in kinds else len(kinds)
    sync_loggers = [i for i in range(first_buffer) if kinds[i] == "logger"]

    def passthrough_check(tag):
        world.op = "observe"
        try:
            for attr in ("supply", "utilisation", "allocation"):
                got = getattr(top, attr)
                want = getattr(pool, "_" + attr)
                if got != want or type(got) is not type(want):
                    V("C16/passthrough/%s" % attr, "%s read through the stack %r is %r, the pool's is %r" % (attr, kinds, got, want))
            if transparent_all:
                got = top.demand
                if got != pool._demand or type(got) is not type(pool._demand):
                    V("C16/demand-read-changed", "demand read through the stack %r is %r, the pool's is %r" % (kinds, got, pool._demand))
        finally:
            world.op = None

    async def main(world, nursery):
        for i, svc in enumerate(services):
            await start_service(world, nursery, "buffer%d" % i, svc, "C16/buffer-run-raised/%s")
        passthrough_check("initial")
        for op in ops:
            await trio.sleep_until(op["t"])
            k = op["k"]
            if k == "write":
                # what each Logger that this write reaches synchronously (no Buffer above it) must report as
                # its target's state "from before the write": read it the way the Logger itself will
                world.op = "pre-read"
                pre = {}
                for i in sync_loggers:
                    tgt = objs[i + 1] if i + 1 < len(objs) else pool
                    pre[i] = {"demand": tgt.demand, "supply": pool._supply, "utilisation": pool._utilisation, "allocation": pool._allocation}
                world.op = None
                w = world.log("top-write", value=op["value"])
                w["pre"] = {str(i): dict(v) for i, v in pre.items()}
                world.op = "write"
                top.demand = op["value"]
                world.op = None
                if transparent_all and (pool._demand != op["value"] or type(pool._demand) is not type(op["value"])):
                    V("C16/demand-write-changed", "wrote %r through the stack %r, the pool received %r" % (op["value"], kinds, pool._demand))
            elif k == "read":
                pass
            elif k == "state":
                for attr in ("supply", "utilisation", "allocation"):
                    pool.poke(attr, op[attr])
            elif k == "outside":
                pool.poke("demand", op["value"])
            elif k == "reconf":
                idxs = [i for i, kk in enumerate(kinds) if kk == "logger"]
                if idxs:
                    i = idxs[op["which"] % len(idxs)]
                    if op["name"] != "keep":
                        prepare_logger(op["name"])
                        objs[i].name = op["name"]
                    if op["level"] != "keep":
                        objs[i].level = op["level"]
                    world.log("reconf", idx=i, name=None if op["name"] == "keep" else op["name"], level=None if op["level"] == "keep" else op["level"])
            else:
                raise ScenarioInvalid(k)
            passthrough_check(k)
        await trio.sleep(4.5)  # let buffers flush once more
        passthrough_check("final")

    try:
        world.run(main)
    finally:
        for lg, h in loggers_touched:
            lg.removeHandler(h)
    # a record is a snapshot: what it carries must not change after the write has been applied
    # (handlers that format on flush, stored records inspected later)
    for lg, h in loggers_touched:
        for rec in h.records:
            late = h.snapshot(rec)
            if late != rec._verif_snapshot:
                V("C16/record-not-a-snapshot", "the record emitted at seq %d carried %r when it was emitted and %r when read again after the write" % (rec._verif_seq, rec._verif_snapshot, late))
                break
    # -- log records -----------------------------------------------------------
    ev = world.events
    reconfs = [e for e in ev if e["kind"] == "reconf"]

    def expect_n(name):
        return 0 if (("" if name == "root" else name) in muted_names) else 1

    def cfg_at(i, seq):
        """(logger name, level) Logger #i is configured with at event `seq`."""
        name, level = stack[i]["_resolved_name"], stack[i]["level"]
        for rc in reconfs:
            if rc["idx"] == i and rc["seq"] < seq:
                name = (rc["name"] or "root") if rc["name"] is not None else name
                level = rc["level"] if rc["level"] is not None else level
        return name, level

    # state of the pool before each pool write
    state = dict(sc["pool"])
    prev_write_seq = 0
    for e in ev:
        if e.get("pool") == "pool" and e["kind"] == "env-set":
            state[e["attr"]] = e["value"]
        if e.get("pool") == "pool" and e["kind"] == "write":
            recs = [r for r in ev if r["kind"] == "log-record" and prev_write_seq < r["seq"] < e["seq"]]
            for i, spec in bottom_loggers:
                cname, clevel = cfg_at(i, e["seq"])
                mine = [r for r in recs if r["target_tok"] == spec["_target_tok"] and r["logger"] == cname and r["level"] == clevel and r["msg"] == (spec.get("message") or DEFAULT)]
                wrong = [r for r in recs if r["target_tok"] == spec["_target_tok"] and r not in mine]
                if wrong:
                    V("C16/record-wrong-logger-or-level", "Logger #%d (%s, level %s) emitted a record on logger %r at level %r with message %r" % (i, cname, clevel, wrong[0]["logger"], wrong[0]["level"], wrong[0]["msg"]))
                if expect_n(cname) == 0:
                    if mine:
                        V("C16/record-on-muted-logger", "Logger #%d emitted a record on %r whose threshold is above its level" % (i, cname))
                    continue
                if len(mine) != 1:
                    later = [r for r in ev if r["kind"] == "log-record" and r["seq"] > e["seq"] and r["target_tok"] == spec["_target_tok"]]
                    V("C16/record-count", "pool write of %r (seq %d): Logger #%d (%s, level %s) emitted %d records before it, expected %d%s" % (e["value"], e["seq"], i, spec["_resolved_name"], spec["level"], len(mine), 1, "; a record follows the write" if later and not mine else ""))
                    continue
                for r in mine:
                    a = r["args"]
                    want = {"value": e["value"], "demand": state["demand"], "supply": state["supply"], "utilisation": state["utilisation"], "allocation": state["allocation"]}
                    bad = {k: (a.get(k), w) for k, w in want.items() if a.get(k) != w}
                    if bad:
                        V("C16/record-fields/%s" % sorted(bad)[0], "record of Logger #%d for the write of %r carries %r, expected (field: got, wanted) %r" % (i, e["value"], a, bad))
            state["demand"] = e["value"]
            prev_write_seq = e["seq"]
    # loggers in the top transparent segment see every write made at the top
    tw = [e for e in ev if e["kind"] == "top-write"]
    for n, w in enumerate(tw):
        hi = tw[n + 1]["seq"] if n + 1 < len(tw) else 10**12
        for i, spec in top_loggers:
            cname, clevel = cfg_at(i, w["seq"])
            mine = [r for r in ev if r["kind"] == "log-record" and w["seq"] < r["seq"] < hi and r.get("op") == "write" and r["target_tok"] == spec["_target_tok"] and r["logger"] == cname and r["level"] == clevel and r["msg"] == (spec.get("message") or DEFAULT)]
            same = [spec] * expect_n(cname)
            if len(mine) != len(same):
                V("C16/record-count-top", "write of %r at the top: Logger #%d (%s) emitted %d records, expected %d" % (w["value"], i, spec["_resolved_name"], len(mine), len(same)))
            elif any(r["args"].get("value") != w["value"] for r in mine):
                V("C16/record-fields/value-top", "write of %r at the top: Logger #%d logged value %r" % (w["value"], i, [r["args"].get("value") for r in mine]))
    # every Logger that a top write reaches synchronously: exactly one record, carrying its own target's state
    for n, w in enumerate(tw):
        hi = tw[n + 1]["seq"] if n + 1 < len(tw) else 10**12
        for i in sync_loggers:
            spec = stack[i]
            mine = [r for r in ev if r["kind"] == "log-record" and w["seq"] < r["seq"] < hi and r.get("op") == "write" and r["target_tok"] == spec["_target_tok"]]
            if expect_n(cfg_at(i, w["seq"])[0]) == 0:
                continue
            if len(mine) != 1:
                V("C16/record-count-sync", "write of %r at the top of %r: Logger #%d emitted %d records, expected 1" % (w["value"], kinds, i, len(mine)))
                continue
            want = w["pre"][str(i)]
            a = mine[0]["args"]
            bad = {k: (a.get(k), v) for k, v in want.items() if a.get(k) != v}
            if bad:
                V("C16/record-fields-target/%s" % sorted(bad)[0], "write of %r at the top of %r: the record of Logger #%d (target: %s) carries %r; its target's state before the write was (field: got, wanted) %r" % (w["value"], kinds, i, kinds[i + 1] if i + 1 < len(kinds) else "pool", {k: a.get(k) for k in want}, bad))
    shape = ["C16", kinds, sorted({o["k"] for o in ops}), min(len(ops), 13), len(sc.get("template_probes", []))]
    nrec = sum(1 for e in ev if e["kind"] == "log-record")
    world.probe("log-records", nrec)
    return finish(world, shape, len(kinds) > 0 and any(o["k"] == "write" for o in ops))


from cobald.decorator.logger import _DEFAULT_MESSAGE as DEFAULT  # noqa: E402
