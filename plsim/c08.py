"""C08 — controllers move demand only in the documented direction and amount.

LinearController / RelativeSupplyController / DemandSwitch are stepped through regulate(interval) by the
environment actor (whether run() calls it on time is C09); Stepwise through its run() loop.
"""
import random

import trio

from .world import World, RecPool, ScenarioInvalid, start_service, finish

from cobald.interfaces import Controller
from cobald.controller.linear import LinearController
from cobald.controller.relative_supply import RelativeSupplyController
from cobald.controller.stepwise import stepwise, Stepwise
from cobald.controller.switch import DemandSwitch

FR = [0.0, 0.125, 0.25, 0.375, 0.5, 0.625, 0.75, 0.875, 1.0]
SUPPLY = [0.0, 0.5, 1.0, 2.0, 3.0, 4.0, 8.0, 10.0, 16.0, 50.0, 100.0, 1024.0]
DEMAND = [-4.0, 0.0, 0.5, 1.0, 2.0, 4.0, 8.0, 10.0, 16.0, 50.0, 100.0, 1, 10, 0]
INTERVALS = [0.125, 0.25, 0.5, 1.0, 2.0, 8.0, 1, 30]
RATES = [0.125, 0.5, 1.0, 2.0, 16.0, 1, 3]


def near(rng, pivots, pool):
    """Bias values to lie exactly on, just below and just above thresholds."""
    if pivots and rng.random() < 0.6:
        p = rng.choice(pivots)
        return rng.choice([p, p, p - 0.125, p + 0.125, p - 2.0 ** -10, p + 2.0 ** -10])
    return rng.choice(pool)


def gen(seed, tier):
    rng = random.Random(seed)
    kind = rng.choice(["linear", "relsupply", "stepwise", "switch"])
    low = rng.choice(FR)
    high = rng.choice([f for f in FR if f >= low])
    sc = {"prop": "C08", "seed": seed, "kind": kind, "pool": {"supply": rng.choice(SUPPLY), "demand": rng.choice(DEMAND), "utilisation": rng.choice(FR), "allocation": rng.choice(FR)}}
    # the regulation steps are taken by the controller's own run() loop (one per interval of
    # virtual time, the first one at once) instead of by calling regulate() directly
    if kind == "stepwise" and rng.random() < 0.3:
        sc["bystander"] = sorted(rng.sample([0.5, 1.0, 3.0, 5.0, 12.0, 20.0, 64.0], rng.randint(0, 3)))
        sc["bystander_first"] = rng.random() < 0.6
    sc["via_run"] = kind in ("linear", "relsupply") and rng.random() < 0.25
    sc["run_interval"] = rng.choice([0.5, 1.0, 2.0, 8.0])
    nsteps = rng.randint(1, 12) if rng.random() < 0.8 else rng.randint(13, 60)
    pivots_fit = [low, high]
    pivots_supply, pivots_demand = [], []
    if kind == "linear":
        sc["params"] = {"low_utilisation": low, "high_allocation": high, "rate": rng.choice(RATES)}
    elif kind == "relsupply":
        sc["params"] = {"low_utilisation": low, "high_allocation": high, "low_scale": rng.choice([0.0, 0.25, 0.5, 0.875, -1.0]), "high_scale": rng.choice([1.125, 1.5, 2.0, 4.0])}
    elif kind == "stepwise":
        n = rng.randint(0, 6)
        ths = rng.sample([0.5, 1.0, 2.0, 3.0, 4.0, 8.0, 10.0, 16.0, 50.0, 100.0], n)
        rng.shuffle(ths)
        sc["params"] = {"base": _gen_rule(rng), "rules": [{"supply": th, "rule": _gen_rule(rng)} for th in ths], "via": rng.choice(["call", "partial", "direct", "decorator"]), "interval": rng.choice([0.25, 1.0, 2.0])}
        pivots_supply = ths
    else:
        n = rng.randint(0, 6)
        ths = rng.sample([-4.0, 0.0, 0.5, 1.0, 2.0, 4.0, 8.0, 10.0, 16.0, 50.0], n)
        rng.shuffle(ths)
        sc["params"] = {"default": _gen_slave(rng, low, high), "slaves": [{"demand": th if rng.random() < 0.7 else int(th), "ctrl": _gen_slave(rng, low, high)} for th in ths], "retarget": rng.choice(["none", "same"])}
        if len({float(s["demand"]) for s in sc["params"]["slaves"]}) != len(sc["params"]["slaves"]):
            sc["params"]["slaves"] = [dict(s, demand=float(s["demand"])) for s in sc["params"]["slaves"]]
        pivots_demand = ths
    steps = []
    for _ in range(nsteps):
        st = {"interval": rng.choice(INTERVALS)}
        if rng.random() < 0.8:
            st["utilisation"] = near(rng, pivots_fit, FR)
        if rng.random() < 0.8:
            st["allocation"] = near(rng, pivots_fit, FR)
        if rng.random() < 0.6:
            st["supply"] = max(0.0, near(rng, pivots_supply, SUPPLY))
        if kind == "relsupply" and rng.random() < 0.1:
            # integers no float can represent: "supply scaled by 1" is the supply itself
            st["supply"] = rng.choice([2**53 + 1, 10**30 + 7, 2**60 + 5])
        if rng.random() < 0.3 or (kind == "switch" and rng.random() < 0.7):
            st["demand"] = near(rng, pivots_demand, DEMAND)
        steps.append(st)
    sc["steps"] = steps
    return sc


def _gen_rule(rng):
    k = rng.choice(["none", "const", "delta", "supply", "cond"])
    if k == "const":
        return {"k": k, "v": rng.choice([0.0, 1.0, 10.0, 64.0, 0])}
    if k == "delta":
        return {"k": k, "v": rng.choice([-1.0, 1.0, 0.5])}
    return {"k": k}


def _gen_slave(rng, low, high):
    k = rng.choice(["linear", "relsupply", "probe", "probe"])
    if k == "linear":
        return {"k": k, "rate": rng.choice([0.5, 1.0, 2.0]), "low": low, "high": high}
    if k == "relsupply":
        return {"k": k, "low_scale": 0.5, "high_scale": 2.0, "low": low, "high": high}
    return {"k": "probe", "add": rng.choice([0.0, 1.0, -1.0])}


class ProbeController(Controller):
    """Instrumented slave controller: logs every regulate call."""

    def __init__(self, target, world, idx, add):
        super().__init__(target)
        self._w, self._idx, self._add = world, idx, add

    def regulate(self, interval):
        self._w.log("slave-call", slave=self._idx, interval=interval, target_is_pool=self.target is self._w.target)
        if self._add:
            self.target.demand = self.target.demand + self._add


def _rule_value(rule, state, interval):
    k = rule["k"]
    if k == "none":
        return None
    if k == "const":
        return rule["v"]
    if k == "delta":
        return state["demand"] + rule["v"] * interval
    if k == "supply":
        return state["supply"]
    if k == "cond":
        return None if state["utilisation"] >= 0.5 else state["demand"] - 1
    raise ScenarioInvalid(k)


def _make_rule(world, idx, rule):
    def fn(pool, interval):
        world.log("rule-call", rule=idx, interval=interval, pool_is_target=pool is world.target)
        k = rule["k"]
        if k == "none":
            return None
        if k == "const":
            return rule["v"]
        if k == "delta":
            return pool.demand + rule["v"] * interval
        if k == "supply":
            return pool.supply
        if k == "cond":
            return None if pool.utilisation >= 0.5 else pool.demand - 1
        raise ScenarioInvalid(k)

    return fn


def run(scenario, tape_values):
    sc = scenario
    try:
        kind = sc["kind"]
        params = sc["params"]
        steps = sc["steps"]
        pool0 = sc["pool"]
    except (KeyError, TypeError) as err:
        raise ScenarioInvalid(str(err))
    world = World(sc, tape_values)
    pool = RecPool(world, "pool", **pool0)
    world.target = pool
    slaves = []

    def mk_slave(idx, s):
        if s["k"] == "linear":
            c = LinearController(None, low_utilisation=s["low"], high_allocation=s["high"], rate=s["rate"])
        elif s["k"] == "relsupply":
            c = RelativeSupplyController(None, low_utilisation=s["low"], high_allocation=s["high"], low_scale=s["low_scale"], high_scale=s["high_scale"])
        else:
            c = ProbeController(None, world, idx, s.get("add", 0.0))
        slaves.append((idx, c))
        return c

    try:
        if kind == "linear":
            ctrl = LinearController(pool, low_utilisation=params["low_utilisation"], high_allocation=params["high_allocation"], rate=params["rate"], **({"interval": sc["run_interval"]} if sc.get("via_run") else {}))
        elif kind == "relsupply":
            ctrl = RelativeSupplyController(pool, low_utilisation=params["low_utilisation"], high_allocation=params["high_allocation"], low_scale=params["low_scale"], high_scale=params["high_scale"], **({"interval": sc["run_interval"]} if sc.get("via_run") else {}))
        elif kind == "switch":
            args = []
            for i, s in enumerate(params["slaves"]):
                args += [s["demand"], mk_slave(i, s["ctrl"])]
            default = mk_slave("default", params["default"])
            if params.get("retarget") == "same":
                for _, c in slaves:
                    c.target = pool
            if len({float(s["demand"]) for s in params["slaves"]}) != len(params["slaves"]):
                raise ScenarioInvalid("duplicate thresholds")
            ctrl = DemandSwitch(pool, default, *args)
        else:
            interval = params["interval"]
            base = _make_rule(world, "base", params["base"])
            rules = [(r["supply"], _make_rule(world, i, r["rule"])) for i, r in enumerate(params["rules"])]
            if len({r[0] for r in rules}) != len(rules) or any(r[0] <= 0 for r in rules):
                raise ScenarioInvalid("duplicate or non-positive thresholds")
            via = params.get("via", "direct")

            def bystander():
                # another Stepwise controller elsewhere in the process, with a rule table of its own
                other = RecPool(world, "otherpool", supply=3.0, demand=2.0)
                Stepwise(other, lambda pool_, interval_: 123.0, *[(th, (lambda v: (lambda pool_, interval_: v))(1000.0 + th)) for th in sc.get("bystander", [])], interval=interval)

            if sc.get("bystander") is not None and sc.get("bystander_first"):
                bystander()
            if via == "direct":
                ctrl = Stepwise(pool, base, *rules, interval=interval)
            else:
                unbound = stepwise(base)
                for th, fn in rules:
                    if via == "decorator":
                        unbound.add(supply=th)(fn)
                    else:
                        unbound.add(fn, supply=th)
                ctrl = unbound(pool, interval=interval) if via in ("call", "decorator") else (unbound.s(interval=interval) >> pool)
            if sc.get("bystander") is not None and not sc.get("bystander_first"):
                bystander()
    except AssertionError as err:
        raise ScenarioInvalid("constructor rejected parameters: %s" % err)

    records = []

    def apply_state(st):
        for attr in ("supply", "utilisation", "allocation", "demand"):
            if attr in st:
                pool.poke(attr, st[attr])

    async def main(world, nursery):
        if kind == "stepwise":
            interval = params["interval"]
            apply_state(steps[0]) if steps else None
            await start_service(world, nursery, "service", ctrl, "C08/run-raised/stepwise/%s")
            for k, st in enumerate(steps):
                if k:
                    await trio.sleep_until(k * interval - interval / 4)
                    apply_state(st)
                await trio.sleep_until(k * interval + interval / 4)
            world.log("horizon")
        elif sc.get("via_run") and kind in ("linear", "relsupply"):
            itv = sc["run_interval"]
            for k, st in enumerate(steps):
                if k:
                    await trio.sleep_until(k * itv - itv / 4)
                apply_state(st)
                world.log("step-begin", k=k, interval=itv, before=dict(pool.state()))
                if k == 0:
                    await start_service(world, nursery, "service", ctrl, "C08/run-raised/" + kind + "/%s")
                await trio.sleep_until(k * itv + itv / 4)
                world.log("step-end", k=k, after=dict(pool.state()))
            world.log("horizon")
        else:
            for k, st in enumerate(steps):
                apply_state(st)
                before = pool.state()
                world.log("step-begin", k=k, interval=st["interval"], before=dict(before))
                try:
                    ctrl.regulate(st["interval"])
                except Exception as err:
                    world.log("regulate-raised", exc=type(err).__name__, text=str(err)[:100])
                    world.violate("C08/regulate-raised/%s/%s" % (kind, type(err).__name__), "regulate(%r) raised %s: %s in state %r" % (st["interval"], type(err).__name__, err, before))
                    return
                world.log("step-end", k=k, after=dict(pool.state()))
                await trio.sleep(0)

    world.run(main)
    _oracle(world, sc, kind, params)
    onthr = sum(1 for e in world.events if e["kind"] == "step-begin" and _on_threshold(e["before"], kind, params))
    world.probe("steps-on-a-threshold", onthr)
    shape = [kind, len(steps) if len(steps) < 13 else 13, sorted(params.keys()), len(params.get("rules", params.get("slaves", []))), params.get("via"), onthr > 0]
    return finish(world, shape, len(steps) >= 1)


def _on_threshold(before, kind, params):
    if kind in ("linear", "relsupply"):
        return before["utilisation"] == params["low_utilisation"] or before["allocation"] == params["high_allocation"]
    if kind == "switch":
        return any(float(s["demand"]) == before["demand"] for s in params["slaves"])
    return any(r["supply"] == before["supply"] for r in params.get("rules", []))


def _oracle(world, sc, kind, params):
    V = world.violate
    ev = world.events
    if kind == "stepwise":
        _oracle_stepwise(world, sc, params)
        return
    begin = None
    calls = []
    for e in ev:
        if e["kind"] == "step-begin":
            begin = e
            calls = []
        elif e["kind"] == "slave-call":
            calls.append(e)
        elif e["kind"] == "step-end" and begin is not None:
            b = begin["before"]
            a = e["after"]
            itv = begin["interval"]
            for attr in ("supply", "utilisation", "allocation"):
                if a[attr] != b[attr]:
                    V("C08/touched-%s/%s" % (attr, kind), "regulate changed %s" % attr)
            if kind == "linear":
                _check_linear(V, "linear", params["low_utilisation"], params["high_allocation"], params["rate"], b, a, itv)
            elif kind == "relsupply":
                _check_relsupply(V, "relsupply", params["low_utilisation"], params["high_allocation"], params["low_scale"], params["high_scale"], b, a)
            else:
                chosen, cidx = params["default"], "default"
                best = None
                for i, s in enumerate(params["slaves"]):
                    if s["demand"] <= b["demand"] and (best is None or s["demand"] > best):
                        best, chosen, cidx = s["demand"], s["ctrl"], i
                if chosen["k"] == "probe":
                    if [c["slave"] for c in calls] != [cidx]:
                        V("C08/switch-selection", "demand=%r thresholds=%r: expected exactly one call of controller %r, saw calls of %r" % (b["demand"], [s["demand"] for s in params["slaves"]], cidx, [c["slave"] for c in calls]))
                    else:
                        if calls[0]["interval"] != itv:
                            V("C08/switch-interval", "slave called with interval %r, step interval %r" % (calls[0]["interval"], itv))
                        if not calls[0]["target_is_pool"]:
                            V("C08/switch-target", "the chosen controller does not act on the switch's own target")
                        if a["demand"] != b["demand"] + chosen.get("add", 0.0):
                            V("C08/switch-effect", "demand %r -> %r, the chosen probe adds %r" % (b["demand"], a["demand"], chosen.get("add")))
                else:
                    if calls:
                        V("C08/switch-selection", "demand=%r: expected only controller %r (a shipped one) to act, but instrumented controllers %r were called" % (b["demand"], cidx, [c["slave"] for c in calls]))
                    elif chosen["k"] == "linear":
                        _check_linear(V, "switch", chosen["low"], chosen["high"], chosen["rate"], b, a, itv)
                    else:
                        _check_relsupply(V, "switch", chosen["low"], chosen["high"], chosen["low_scale"], chosen["high_scale"], b, a)
            begin = None


def _check_linear(V, tag, low, high, rate, b, a, itv):
    d = a["demand"] - b["demand"]
    amount = rate * itv
    down = b["utilisation"] < low
    up = b["allocation"] > high
    state = "state %r low=%r high=%r rate=%r interval=%r" % (b, low, high, rate, itv)
    if abs(d) > amount:
        V("C08/linear-too-much/%s" % tag, "demand moved by %r, more than rate x interval = %r (%s)" % (d, amount, state))
    if d < 0 and not down:
        V("C08/linear-wrong-direction/down/%s" % tag, "demand decreased although utilisation %r is not below %r (%s)" % (b["utilisation"], low, state))
    if d > 0 and not up:
        V("C08/linear-wrong-direction/up/%s" % tag, "demand increased although allocation %r is not above %r (%s)" % (b["allocation"], high, state))
    if down != up and abs(d) != amount:
        V("C08/linear-amount/%s" % tag, "exactly one condition holds (down=%r up=%r) but demand moved by %r instead of %r (%s)" % (down, up, d, amount, state))
    if down and not up and d > 0 or up and not down and d < 0:
        V("C08/linear-wrong-direction/sign/%s" % tag, "demand moved by %r (%s)" % (d, state))
    if not down and not up and d != 0:
        V("C08/linear-moved-when-idle/%s" % tag, "neither condition holds but demand moved by %r (%s)" % (d, state))


def _check_relsupply(V, tag, low, high, low_scale, high_scale, b, a):
    down = b["utilisation"] < low
    up = b["allocation"] > high
    allowed = []
    if down:
        allowed.append(b["supply"] * low_scale)
    if up:
        allowed.append(b["supply"] * high_scale)
    if not down and not up:
        allowed.append(b["supply"])
    if a["demand"] not in allowed:
        V("C08/relsupply-value/%s/%s" % (tag, "down" if down and not up else "up" if up and not down else "both" if down else "idle"), "state %r (low=%r high=%r scales=%r/%r): demand became %r, documented %r" % (b, low, high, low_scale, high_scale, a["demand"], allowed))


def _oracle_stepwise(world, sc, params):
    V = world.violate
    ev = world.events
    interval = params["interval"]
    state = {k: float(v) if not isinstance(v, int) else v for k, v in sc["pool"].items()}
    bursts = []
    cur = None
    for e in ev:
        is_svc = e["actor"] == "service" and e["kind"] in ("read", "write", "rule-call")
        if is_svc:
            if cur is None or cur["closed"] or cur["t"] != e["t"]:
                cur = {"t": e["t"], "events": [], "before": dict(state), "closed": False}
                bursts.append(cur)
            cur["events"].append(e)
        elif cur is not None:
            cur["closed"] = True
        if e.get("pool") == "pool":
            if e["kind"] == "env-set":
                state[e["attr"]] = e["value"]
            elif e["kind"] == "write":
                state["demand"] = e["value"]
        if is_svc:
            cur["after"] = dict(state)
    if any(e["kind"] == "service-raised" for e in ev):
        return
    nsteps = len(sc["steps"])
    if len(bursts) != nsteps:
        V("C08/stepwise-step-count", "%d regulation steps observed in %d periods" % (len(bursts), nsteps))
        return
    for b in bursts:
        before = b["before"]
        rule, ridx, best = params["base"], "base", None
        for i, r in enumerate(params["rules"]):
            if r["supply"] <= before["supply"] and (best is None or r["supply"] > best):
                best, rule, ridx = r["supply"], r["rule"], i
        calls = [e for e in b["events"] if e["kind"] == "rule-call"]
        if [c["rule"] for c in calls] != [ridx]:
            V("C08/stepwise-selection", "supply=%r thresholds=%r: expected exactly one call of rule %r, saw %r" % (before["supply"], [r["supply"] for r in params["rules"]], ridx, [c["rule"] for c in calls]))
            return
        if calls[0]["interval"] != interval or not calls[0]["pool_is_target"]:
            V("C08/stepwise-arguments", "rule called with interval %r (configured %r), target identity %r" % (calls[0]["interval"], interval, calls[0]["pool_is_target"]))
        want = _rule_value(rule, before, interval)
        writes = [e for e in b["events"] if e["kind"] == "write"]
        if want is None:
            if writes:
                V("C08/stepwise-none-wrote", "rule %r returned None but demand was written (%r)" % (ridx, writes[0]["value"]))
        else:
            after = b.get("after", before)["demand"]
            if after != want or len(writes) != 1:
                V("C08/stepwise-effect", "rule %r returned %r, demand became %r with %d writes" % (ridx, want, after, len(writes)))
