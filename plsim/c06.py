"""C06 — Standardiser always keeps the forwarded demand within its limits.

Histories of demand writes / reads through a Standardiser interleaved with supply changes and
outside changes of the target's demand.  All values are dyadic rationals in a range where float
arithmetic is exact; the reference is computed with Fractions.  The schedule dimension is
degenerate here (operations are atomic between trio checkpoints) - see DESIGN 6.4.
"""
import math
import random
from fractions import Fraction

import trio

from .world import World, RecPool, ScenarioInvalid, finish

from cobald.decorator.standardiser import Standardiser

INF = float("inf")
MINS = [-INF, -INF, -INF, 0, 0.0, 1, 2.5, 10.5, -4, -4.5, 16, 0.25]
MAXS = [INF, INF, INF, 0, 8, 10.5, 100, 20.25, 1000, -1, 3]
GRANS = [1, 1, 1, 2, 4, 10, 3, 0.5, 0.25, 1.5, 8, 100]
LIMS = [INF, INF, INF, 0.5, 1, 2, 10, 100, 0.125]
SUPPLIES = [0, 0.0, 1, 2.5, 4, 8.0, 10, 16.5, 100, 1000.0]
DEMANDS_F = [-8.0, -0.5, 0.0, 0.25, 0.5, 1.0, 1.5, 2.0, 2.75, 3.0, 4.0, 7.5, 8.0, 10.0, 10.5, 11.0, 15.75, 16.0, 20.25, 99.5, 100.0, 1000.0, 1023.875]
DEMANDS_I = [-8, -1, 0, 1, 2, 3, 4, 7, 8, 10, 11, 15, 16, 20, 21, 99, 100, 101, 1000]
DEMANDS_HUGE = [2**54 + 6, 2**54 + 7, 10**18 + 2, 2**60, 2**60 + 5, 2**63 - 1, 10**17 + 15, -(2**55) - 3, 3 * 10**20 + 1]


def gen(seed, tier):
    rng = random.Random(seed)
    mn = rng.choice(MINS)
    mx = rng.choice([m for m in MAXS if m >= mn] or [INF])
    params = {"minimum": mn, "maximum": mx, "granularity": rng.choice(GRANS), "backlog": rng.choice(LIMS), "surplus": rng.choice(LIMS)}
    # swarm: integer demands, float demands, or both
    mode = rng.choice(["float", "float", "int", "mixed"])
    pool = DEMANDS_F if mode == "float" else DEMANDS_I if mode == "int" else DEMANDS_F + DEMANDS_I
    inf_supply = rng.random() < 0.05
    if inf_supply:
        params["backlog"] = INF  # the lower edge of the window is undefined then, i.e. no limit
    huge = False
    if rng.random() < 0.06:
        # integers beyond 2**53: exact for Python ints, not representable as floats.  Integer
        # granularities only (a fractional granule forces float arithmetic on any implementation)
        mode = "int"
        huge = True
        pool = DEMANDS_HUGE + [0, 1, 7]
        params["granularity"] = rng.choice([1, 2, 3, 4, 8, 10, 100])
        if rng.random() < 0.7:
            params["minimum"], params["maximum"] = -INF, INF
            mn, mx = -INF, INF
        if rng.random() < 0.7:
            params["backlog"] = params["surplus"] = INF
    near = [x for x in (mn, mx) if x not in (INF, -INF)]
    n = rng.randint(1, 10) if rng.random() < 0.8 else rng.randint(11, 60)
    ops = []
    for _ in range(n):
        k = rng.choice(["write", "write", "write", "read", "supply", "outside", "incr", "props"])
        if k == "write":
            if near and rng.random() < 0.4:
                b = rng.choice(near)
                v = b + rng.choice([-1, -0.5, 0, 0.5, 1, params["granularity"], -params["granularity"]])
                if mode == "int":
                    v = int(math.floor(v))
            else:
                v = rng.choice(pool)
            ops.append(["write", v])
        elif k == "read":
            ops.append(["read"])
        elif k == "supply":
            ops.append(["supply", rng.choice(SUPPLIES + ([INF, INF, INF] if inf_supply else []))])
        elif k == "outside":
            ops.append(["outside", rng.choice(pool)])
        elif k == "incr":
            ops.append(["incr", rng.randint(1, 12), 1 if huge else rng.choice([1, 1, 1.0])])
        else:
            ops.append(["props", rng.choice([0.0, 0.25, 0.5, 1.0]), rng.choice([0.0, 0.25, 0.5, 1.0])])
    other = None
    if rng.random() < 0.3:
        omn = rng.choice(MINS)
        other = {"minimum": omn, "maximum": rng.choice([m for m in MAXS if m >= omn] or [INF]), "granularity": rng.choice(GRANS), "backlog": rng.choice(LIMS), "surplus": rng.choice(LIMS)}
    return {"prop": "C06", "seed": seed, "other": other, "params": params, "mode": mode, "pool": {"supply": rng.choice([INF] if inf_supply else SUPPLIES), "demand": rng.choice(pool), "utilisation": 0.5, "allocation": 0.5}, "ops": ops}


def F(x):
    return Fraction(x)


def fin(x):
    return x not in (INF, -INF)


def lower_bounds(p, supply):
    if supply == INF:
        # an unlimited supply (only generated together with an unlimited backlog): "supply - backlog"
        # is undefined and imposes nothing, "supply + surplus" is unlimited
        win_lo, win_hi = -INF, INF
    else:
        win_lo = -INF if p["backlog"] == INF else F(supply) - F(p["backlog"])
        win_hi = INF if p["surplus"] == INF else F(supply) + F(p["surplus"])
    mn = p["minimum"] if not fin(p["minimum"]) else F(p["minimum"])
    mx = p["maximum"] if not fin(p["maximum"]) else F(p["maximum"])
    return win_lo, win_hi, mn, mx


def within(v, lo, hi):
    return lo <= v <= hi


def run(scenario, tape_values):
    sc = scenario
    try:
        p = dict(sc["params"])
        ops = sc["ops"]
        pool0 = dict(sc["pool"])
        if not (p["minimum"] <= p["maximum"] and p["surplus"] > 0 and p["backlog"] > 0 and p["granularity"] > 0):
            raise ScenarioInvalid("constructor would reject")
    except (KeyError, TypeError) as err:
        raise ScenarioInvalid(str(err))
    world = World(sc, tape_values)
    V = world.violate
    pool = RecPool(world, "pool", **pool0)
    g = F(p["granularity"])
    ctx = {"clean": True}  # no supply / outside change since the last write through the standardiser

    def typ(v):
        return type(v).__name__

    def check_limits(kind, val, supply, vt):
        """kind: forwarded | readback"""
        win_lo, win_hi, mn, mx = lower_bounds(p, supply)
        fv = F(val)
        if not within(fv, mn, mx):
            V("C06/%s-outside-min-max/%s" % (kind, vt), "%s demand %r is outside [minimum=%r, maximum=%r] (params %r, supply %r)" % (kind, val, p["minimum"], p["maximum"], p, supply))
        lo, hi = max(win_lo, mn), min(win_hi, mx)
        if lo <= hi and not within(fv, win_lo, win_hi):
            V("C06/%s-outside-supply-window/%s" % (kind, vt), "%s demand %r is outside [supply-backlog, supply+surplus] = [%s, %s] although that window meets [minimum, maximum] (params %r, supply %r)" % (kind, val, win_lo, win_hi, p, supply))

    def all_limits_ok(x, supply):
        win_lo, win_hi, mn, mx = lower_bounds(p, supply)
        return within(x, mn, mx) and within(x, win_lo, win_hi)

    def do_write(std, tpool, v, tag="write"):
        supply = tpool._supply
        world.log("std-write", value=v, vtype=typ(v))
        std.demand = v
        f = tpool._demand
        vt = typ(v)
        if isinstance(f, float) and not math.isfinite(f):
            V("C06/forwarded-not-finite/%s" % vt, "wrote the finite demand %r, forwarded %r (params %r, supply %r)" % (v, f, p, supply))
            return
        check_limits("forwarded", f, supply, vt)
        fl = (F(v) / g).__floor__() * g
        if all_limits_ok(F(v), supply) and all_limits_ok(fl, supply) and (p["granularity"] != 1 or F(v).denominator == 1):
            if F(f) != fl:
                V("C06/forwarded-not-floored/%s" % vt, "wrote %r, no limit interferes, forwarded %r, expected the floor to the granularity %s (params %r, supply %r)" % (v, f, fl, p, supply))
        r = std.demand
        world.log("std-readback", value=r)
        check_limits("readback", r, supply, vt)
        if not abs(F(r) - F(tpool._demand)) < g:
            V("C06/readback-far-from-target/%s" % vt, "after writing %r the read-back %r is %s away from target.demand %r (granularity %r)" % (v, r, abs(F(r) - F(tpool._demand)), tpool._demand, p["granularity"]))
        if all_limits_ok(F(v), supply) and F(r) != F(v):
            V("C06/readback-not-the-written-value/%s" % vt, "wrote %r which satisfies all limits, read back %r (params %r, supply %r)" % (v, r, p, supply))

    async def main(world, nursery):
        try:
            std = Standardiser(pool, **p)
        except ValueError as err:
            raise ScenarioInvalid(str(err))
        if sc.get("other"):
            # another Standardiser somewhere else in the process, with limits of its own, constructed
            # later: every instance keeps to its own settings
            try:
                ctx["other"] = Standardiser(RecPool(world, "otherpool", supply=3.0, demand=1.0), **sc["other"])
            except ValueError:
                pass
        for op in ops:
            k = op[0]
            world.op = k
            if k == "write":
                do_write(std, pool, op[1])
                ctx["clean"] = True
            elif k == "read":
                r = std.demand
                world.log("std-read", value=r)
                if not abs(F(r) - F(pool._demand)) < g:
                    V("C06/read-far-from-target", "read %r, target.demand %r, granularity %r" % (r, pool._demand, p["granularity"]))
            elif k == "supply":
                pool.poke("supply", op[1])
                ctx["clean"] = False
            elif k == "outside":
                pool.poke("demand", op[1])
                ctx["clean"] = False
            elif k == "props":
                pool.poke("utilisation", op[1])
                pool.poke("allocation", op[2])
                for attr in ("supply", "utilisation", "allocation"):
                    got = getattr(std, attr)
                    if got != getattr(pool, "_" + attr) or type(got) is not type(getattr(pool, "_" + attr)):
                        V("C06/passthrough/%s" % attr, "%s read through the Standardiser is %r, the pool's is %r" % (attr, got, getattr(pool, "_" + attr)))
            elif k == "incr":
                n, one = op[1], op[2]
                # two fresh Standardisers over identical frozen pools
                pa = RecPool(world, "pa", **pool.state())
                pb = RecPool(world, "pb", **pool.state())
                sa, sb = Standardiser(pa, **p), Standardiser(pb, **p)
                r0 = sa.demand
                clean = all_limits_ok(F(r0), pa._supply) and all_limits_ok(F(r0) + n * F(one), pa._supply)
                for _ in range(n):
                    sa.demand = sa.demand + one
                sb.demand = sb.demand + n * one
                if clean and (F(pa._demand) != F(pb._demand) or F(sa.demand) != F(sb.demand)):
                    V("C06/increments-differ/%s" % typ(one), "%d increments of %r ended at target=%r read-back=%r, one increment of %r ended at target=%r read-back=%r (start %r, params %r, supply %r)" % (n, one, pa._demand, sa.demand, n * one, pb._demand, sb.demand, r0, p, pa._supply))
            else:
                raise ScenarioInvalid(k)
            world.op = None
            await trio.sleep(0)

    world.run(main)
    active = sorted(k for k in ("minimum", "maximum", "backlog", "surplus") if fin(p[k])) + (["granularity"] if p["granularity"] != 1 else [])
    shape = ["C06", active, sc.get("mode"), sorted({o[0] for o in ops}), min(len(ops), 11)]
    return finish(world, shape, any(o[0] in ("write", "incr") for o in ops))
