"""Generator pieces and bounds shared by the runtime properties."""
FL = ["asyncio", "trio", "threading"]


def base_knobs(rng, tier):
    strat = rng.choice(
        [
            {"kind": "random", "p": 0.01},
            {"kind": "random", "p": 0.05},
            {"kind": "random", "p": 0.2},
            {"kind": "random", "p": 0.5},
            {"kind": "random", "p": 0.02, "p_window": 0.6},
            {"kind": "random", "p": 0.1, "p_window": 0.9},
            {"kind": "pct", "d": 1, "len": 1500},
            {"kind": "pct", "d": 2, "len": 2500},
            {"kind": "pct", "d": 3, "len": 4000},
        ]
    )
    return {
        "accept_delay": rng.choice([0.01, 0.1, 0.25, 0.25, 1.0, 3.0]),
        "delta": rng.choice([1e-4, 1e-3]),
        "horizon": 60.0,
        "step_cap": 250000,
        "hash_seed": rng.getrandbits(32),
        "strategy": strat,
    }


def bystanders(rng, n, allow_spin=False, prefix="b"):
    out = []
    for i in range(n):
        fl = rng.choice(FL)
        via = rng.choice(["queued", "queued", "service-pre"])
        if fl == "threading":
            steps = rng.choice([[["hb", 0.5, None]], [["block"]], [["sleep", 0.2], ["return", "none"]], [["hb", 0.25, 3]]])
        else:
            choices = [[["hb", 0.5, None]], [["block"]], [["park"]], [["sleep", 0.2], ["return", "none"]], [["spin", 3], ["hb", 1.0, None]], [["swallow", rng.choice([1, 2])]]]
            if allow_spin:
                choices.append([["spin-forever"]])
            steps = rng.choice(choices)
        spec = {"id": "%s%d" % (prefix, i), "flavour": fl, "via": via, "steps": steps}
        if fl != "threading" and rng.random() < 0.4:
            spec["cleanup_sync"] = rng.randint(1, 3)
        if fl == "trio" and rng.random() < 0.3:
            spec["cleanup_async"] = rng.choice([0.05, 0.3, 1.0])
        out.append(spec)
    return out


STALL_FUNCS = ["register_payload", "register_payload", "adopt", "_setup_payload", "_adopt_services", "start", "shutdown", "stop", "_monitor_payload", "run_payload", "execute", "_submit_payload", "aclose"]


def gen_stalls(rng, p=0.3):
    """Fault plan: 0-2 threads descheduled for a while at the n-th executed line of a runtime function."""
    if rng.random() >= p:
        return []
    out = []
    for _ in range(rng.choice([1, 1, 2])):
        st = {"func": rng.choice(STALL_FUNCS), "nth": rng.randint(1, 8), "dur": rng.choice([0.02, 0.08, 0.15, 0.3, 1.0])}
        if rng.random() < 0.5:
            st["after"] = True  # count lines only from the moment a termination trigger fired
        if rng.random() < 0.5:
            # ... and resumed when another thread has got as far as the k-th next line of one of these
            st["until"] = rng.choice(["_manage_runners", "_aclose_runners", "aclose", "run", "_accept_services", "_unqueue_payloads", "_launch_runners", "manage_payloads"])
            st["k"] = rng.randint(1, 7)
            st["dur"] = rng.choice([1.0, 3.0])
        out.append(st)
    return out


def gen_slow_starts(rng, p=0.15):
    """Fault plan: the k-th thread created during the run (payload threads, executor workers, the
    trio thread, drivers) gets its first time slice only after a while."""
    if rng.random() >= p:
        return []
    if rng.random() < 0.4:
        # ... or the first few threads created once a termination trigger has fired (cleanup helpers)
        return [{"after": True, "count": rng.choice([1, 2, 3]), "dur": rng.choice([0.002, 0.01, 0.05])}]
    return [{"nth": rng.randint(1, 12), "dur": rng.choice([0.002, 0.01, 0.05, 0.3])} for _ in range(rng.choice([1, 1, 2]))]


def liveness_bound(h):
    """Generous bound on 'ends': the scenario's own delays plus 5 s of slack (DESIGN 5)."""
    from .sched import S

    b = h.knobs.get("accept_delay", 0.25) + 5.0 + S.stall_total
    for p in h.sc.get("payloads", []):
        b += p.get("cleanup_async", 0)
    for e in h.events:
        if e["kind"] == "clock-jump":
            b += e.get("by", 0)
        elif e["kind"] == "stall":
            b += e.get("d", 0)
    return b
