"""C11 — coroutine payloads of one flavour never run in parallel."""
import random
import time

from .sched import S
from .common import base_knobs, FL

TOL = 0.05  # heartbeat lateness tolerance (CPU-cost model, DESIGN 3.3)


def gen(seed, tier):
    rng = random.Random(seed)
    knobs = base_knobs(rng, tier)
    knobs["delta"] = 1e-4
    payloads = []
    dscript = [["wait-running"]]
    tscripts = []
    n = 0
    for fl in ("asyncio", "trio"):
        for _ in range(rng.randint(1, 4)):
            pid = "c%d" % n
            n += 1
            spec = {"id": pid, "flavour": fl, "steps": [["hb", rng.choice([0.25, 0.5, 1.0]), None, rng.randint(0, 6)]], "hb": True}
            via = rng.choice(["queued", "service-pre", "adopt-driver", "adopt-payload", "service-late", "adopt-private-loop"])
            if via in ("queued", "service-pre"):
                spec["via"] = via
            elif via == "adopt-driver":
                spec["via"] = "adopt"
                dscript += [["sleep", rng.choice([0.0, 0.1, 0.4])], ["adopt", pid]]
            elif via == "service-late":
                spec["via"] = "service"
                dscript += [["sleep", rng.choice([0.0, 0.1, 0.4])], ["create-service", pid]]
            elif via == "adopt-private-loop":
                # submitted by a thread payload from inside an asyncio event loop of its own
                spec["via"] = "adopt"
                payloads.append({"id": "par" + pid, "flavour": "threading", "via": "queued", "steps": [["sleep", rng.choice([0.0, 0.2])], ["private-loop", [["adopt", pid], ["sleep", rng.choice([0.5, 2.0])]]], ["return", "none"]]})
            else:
                spec["via"] = "adopt"
                payloads.append({"id": "par" + pid, "flavour": rng.choice(FL), "via": "queued", "steps": [["sleep", rng.choice([0.0, 0.2])], ["adopt", pid], ["sleep", 0.1], ["return", "none"]]})
            payloads.append(spec)
    # blocking thread payloads
    for i in range(rng.randint(0, 3)):
        steps = rng.choice([[["block"]], [["sleep", 1.5], ["sleep", 3.0], ["return", "none"]], [["section", 4], ["sleep", 2.0], ["section", 4], ["block"]]])
        payloads.append({"id": "t%d" % i, "flavour": "threading", "via": rng.choice(["queued", "service-pre", "adopt"]), "steps": steps})
        if payloads[-1]["via"] == "adopt":
            dscript += [["adopt", "t%d" % i]]
    # executed coroutine payloads with sections, from the driver and from a thread payload
    nx = rng.randint(0, 6)
    tsteps = []
    for i in range(nx):
        fl = rng.choice(["asyncio", "trio"])
        pid = "x%d" % i
        payloads.append({"id": pid, "flavour": fl, "via": "execute", "steps": [["section", rng.randint(1, 6)], ["sleep", rng.choice([0.0, 0.05, 0.3])], ["section", rng.randint(1, 6)], ["return", "obj"]]})
        if rng.random() < 0.35:
            # not a bare coroutine function: a callable whose own (synchronous) code runs when it is called
            payloads[-1]["callable"] = rng.choice(["sync-prologue", "sync-prologue", "lambda", "instance", "method"])
        if rng.random() < 0.5:
            dscript += [["sleep", rng.choice([0.0, 0.1, 0.3])], ["execute", pid]]
        else:
            tsteps += [["sleep", rng.choice([0.0, 0.1, 0.3])], ["execute", pid]]
    if tsteps:
        payloads.append({"id": "texec", "flavour": "threading", "via": "queued", "steps": tsteps + [["return", "none"]]})
    # execute(flavour=trio) from callers that are themselves inside trio: a trio payload of the runtime, and a
    # thread payload driving a private trio.run.  The unchanged tree refuses both (RuntimeError from trio's
    # blocking-call check), so nothing may ever run outside the one trio run.
    if rng.random() < 0.4:
        payloads.append({"id": "xs", "flavour": "trio", "via": "execute", "steps": [["section", 3], ["sleep", 0.2], ["section", 3], ["return", "obj"]]})
        if rng.random() < 0.5:
            payloads.append({"id": "tcaller", "flavour": "trio", "via": "queued", "steps": [["sleep", rng.choice([0.1, 0.4])], ["execute", "xs"], ["sleep", 0.1], ["return", "none"]]})
        else:
            payloads.append({"id": "tcaller", "flavour": "threading", "via": "queued", "steps": [["sleep", rng.choice([0.1, 0.4])], ["private-trio", [[rng.choice(["execute", "execute-in-thread"]), "xs"], ["sleep", 0.3]]], ["return", "none"]]})
    if rng.random() < 0.12:
        # population size is a knob too: a coroutine payload (or the accept loop, through services) hands the
        # runtime a flood of thread payloads that all block - the coroutine side must keep ticking
        nflood = rng.choice([24, 40, 70])
        via = rng.choice(["adopt", "service"])
        for i in range(nflood):
            payloads.append({"id": "fl%d" % i, "flavour": "threading", "via": via, "steps": [["block"]]})
        op = "adopt" if via == "adopt" else "create-service"
        payloads.append({"id": "flooder", "flavour": rng.choice(["asyncio", "trio"]), "via": "queued", "steps": [["sleep", 0.3]] + [[op, "fl%d" % i] for i in range(nflood)] + [["return", "none"]]})
        knobs["step_cap"] = 600000
        want_hopper = True
    else:
        want_hopper = rng.random() < 0.15
    if want_hopper:
        # coroutine payloads that push short blocking calls to worker threads of their own framework:
        # blocked thread payloads, however many, must not use up what those calls need
        for fl_ in rng.sample(["asyncio", "trio"], rng.choice([1, 2])):
            payloads.append({"id": "hopper-" + fl_, "flavour": fl_, "via": "queued", "steps": [["sleep", rng.choice([0.1, 1.0, 1.5])], ["hop", rng.choice([1, 3]), 0.2], ["block"]]})
    end_index = len(dscript)
    if rng.random() < 0.1:
        # the runtime ends because a payload interrupts (the event loop is stopped, then driven again
        # by asyncio.run to clean up) while another thread calls shutdown(): whoever resumes the
        # payloads for their clean-up, it is the event loop thread
        payloads.append({"id": "kiboom", "flavour": rng.choice(["asyncio", "threading"]), "via": "adopt", "steps": [["raise", rng.choice(["KeyboardInterrupt", "SystemExit"])]]})
        dscript += [["sleep", rng.choice([1.0, 2.0])], ["adopt", "kiboom"], ["sleep", rng.choice([0.0, 0.0, 0.001, 0.002, 0.005])], ["shutdown"]]
        knobs["strategy"] = rng.choice([{"kind": "random", "p": 0.2}, {"kind": "random", "p": 0.5}, knobs["strategy"]])
    else:
        dscript += [["sleep", rng.choice([2.0, 3.0, 6.0])], ["mark", "before-shutdown"], ["shutdown"]]
    knobs["horizon"] = 60.0
    rng.shuffle(payloads)
    drivers = [{"id": "d0", "script": dscript}]
    if rng.random() < 0.15:
        # payloads parked on an awaitable nobody else references, and a collection on some other thread
        for fl_ in rng.sample(["asyncio", "trio"], rng.choice([1, 2])):
            payloads.append({"id": "parked-" + fl_, "flavour": fl_, "via": rng.choice(["queued", "service-pre"]), "steps": [["park"]], "cleanup_sync": 2})
        drivers.append({"id": "dgc", "script": [["wait-running"], ["sleep", rng.choice([0.3, 1.0, 1.5])], ["gc"], ["sleep", 0.5], ["gc"]]})
    if rng.random() < 0.12:
        # other runners try to accept while this one is active: each attempt is refused, so there is
        # still one event loop and one trio run for everything created afterwards
        drivers.append({"id": "d1", "script": [["wait-running"]] + [x for _ in range(rng.choice([1, 2, 3])) for x in (["sleep", rng.choice([0.0, 0.05])], ["accept-second"])]})
    second = None
    if rng.random() < 0.1:
        # a second run in the same process, with a new runner, once the first one has ended - by an interrupt,
        # more often than not - while it had coroutine payloads with clean-up still to do: whatever belongs to
        # the first run is over before anything of the second one begins (one loop, one trio run at a time)
        how = rng.choice(["sigint", "sigint", "ki", "exit", "shutdown"])
        ending = [["sleep", rng.choice([1.0, 2.0])]]
        if how == "sigint":
            ending += [["sigint"]]
        elif how == "shutdown":
            ending += [["shutdown"]]
        else:
            payloads.append({"id": "kiboom2", "flavour": rng.choice(FL), "via": "adopt", "steps": [["raise", "KeyboardInterrupt" if how == "ki" else "SystemExit"]]})
            ending += [["adopt", "kiboom2"]]
        del dscript[end_index:]
        dscript += ending
        payloads[:] = [p for p in payloads if p["id"] != "kiboom"]
        for fl_ in ("trio", "asyncio"):
            spec = {"id": "keeper-" + fl_, "flavour": fl_, "via": "queued", "steps": [["hb", 0.25, None, 2]], "cleanup_sync": rng.choice([1, 3])}
            if fl_ == "trio":
                spec["cleanup_async"] = rng.choice([0.5, 2.0])
            payloads.append(spec)
        payloads.append({"id": "s2t", "flavour": "trio", "via": "queued", "phase": 1, "steps": [["hb", 0.1, 12, 3]]})
        payloads.append({"id": "s2a", "flavour": "asyncio", "via": "queued", "phase": 1, "steps": [["hb", 0.1, 12, 3]]})
        payloads.append({"id": "s2stop", "flavour": "threading", "via": "queued", "phase": 1, "steps": [["sleep", 1.5], ["shutdown"]]})
        second = {"how": how, "gap": rng.choice([0.0, 0.0, 0.05])}
    return {"prop": "C11", "seed": seed, "knobs": knobs, "payloads": payloads, "drivers": drivers, "second": second, "grace": 0.5}


def main(h):
    r = h.new_runner()
    sec = h.sc.get("second")
    h.pre_start(r, phase=0 if sec else None)
    h.start_drivers()
    h.run_accept(r)
    if sec:
        time.sleep(sec.get("gap", 0.0))
        r2 = h.new_runner()
        S.count_fault("second-run-after-%s" % sec.get("how"))
        h.ev("phase", phase=1)
        h.pre_start(r2, phase=1)
        h.run_accept(r2)
    time.sleep(h.sc.get("grace", 0.5))


def check(h, reason):
    v = []

    def V(key, msg):
        if not any(x["key"] == key for x in v):
            v.append({"key": key, "msg": msg})

    ev = h.events
    specs = h.specs
    mark = next((e for e in ev if e["kind"] == "mark:before-shutdown"), None)
    m_seq = mark["seq"] if mark else 10**12
    # 1a. no coroutine payload starts or resumes while another one of its flavour is between two
    #     checkpoints (same-thread re-entrancy counts: "may share state without locks")
    for e in ev:
        if e["kind"] == "nested-segment" and e["flavour"] in ("asyncio", "trio"):
            V("C11/nested-segment/%s" % e["flavour"], "%s payload %s started or resumed while %s payload %s was between two checkpoints" % (e["flavour"], e["pid"], e["flavour"], e["inside"]))
    # 1c. short blocking calls handed to worker threads come back promptly
    begun = {}
    for e in ev:
        if e["kind"] == "hop-begin":
            begun[(e["pid"], e["k"])] = e
        elif e["kind"] == "hop-end":
            b = begun.pop((e["pid"], e["k"]), None)
            if b is not None and e["t"] - b["t"] > 1.0:
                V("C11/thread-hop-late/%s" % specs[e["pid"]]["flavour"], "%s payload %s: a no-op on a worker thread took %.2fs" % (specs[e["pid"]]["flavour"], e["pid"], e["t"] - b["t"]))
    # (a hop that was under way when the runtime began to go down is cancelled with its payload)
    term = next((e for e in ev if e["kind"] in ("sigint-sent", "shutdown-call", "stop-call") or (e["kind"] == "raise" and e.get("exc") in ("KeyboardInterrupt", "SystemExit"))), None)
    for (pid_, k_), b in sorted(begun.items()):
        if (term["t"] if term is not None else S.now) - b["t"] > 1.0:
            V("C11/thread-hop-stalled/%s" % specs[pid_]["flavour"], "%s payload %s handed a no-op to a worker thread at t=%.2f and was still waiting %.2fs later (%d thread payloads blocked)" % (specs[pid_]["flavour"], pid_, b["t"], S.now - b["t"], sum(1 for x in ev if x["kind"] == "blocking" and specs.get(x.get("pid"), {}).get("flavour") == "threading")))
    # 1. overlap detector
    for e in ev:
        if e["kind"] == "overlap" and e["flavour"] in ("asyncio", "trio"):
            V("C11/overlap/%s" % e["flavour"], "two %s payloads were inside their synchronous sections at the same time (payload %s entered at depth %d, sim thread %d)" % (e["flavour"], e["pid"], e["depth"], e["sid"]))
    # 2. one loop / one run / one thread per flavour - per run of the runtime; and nothing of an earlier
    #    run is still going when a later one starts its first payload of that flavour
    p1 = next((e["seq"] for e in ev if e["kind"] == "phase" and e.get("phase") == 1), None)
    all_ctxs = []
    if p1 is not None:
        for fl in ("asyncio", "trio"):
            first2 = next((e for e in ev if e["seq"] > p1 and e["kind"] == "start" and specs.get(e.get("pid"), {}).get("flavour") == fl and specs[e["pid"]].get("phase") == 1), None)
            if first2 is None:
                continue
            last_start = {}
            for e in ev:
                pid_ = e.get("pid")
                if e["kind"] == "start" and pid_ in specs:
                    last_start[pid_] = e["seq"]
                # (a payload executed on behalf of a surviving thread payload of the first run belongs to the second run)
                if e["seq"] > first2["seq"] and pid_ in specs and specs[pid_]["flavour"] == fl and specs[pid_].get("phase", 0) == 0 and last_start.get(pid_, 0) < p1 and e["kind"] in ("hb", "step", "cleanup-step", "cleanup-async-done", "finished", "cancelled"):
                    V("C11/runs-overlap/%s" % fl, "%s payload %s of the first run executed '%s' at t=%.3f (sim thread %s) after the second run had started %s payload %s at t=%.3f (sim thread %s): two %s contexts are alive at once" % (fl, pid_, e["kind"], e["t"], e["sid"], fl, first2["pid"], first2["t"], first2["sid"], fl))
                    break
    ctxs = {"asyncio": set(), "trio": set(), "threading": set()}
    modes = {"asyncio": set(), "trio": set()}
    for e in ev:
        if p1 is not None and e["seq"] > p1 and ctxs is not None and not all_ctxs:
            # the second run has a loop and a trio run of its own
            all_ctxs.append(ctxs)
            for fl in ("asyncio", "trio"):
                if len(ctxs[fl]) > 1:
                    V("C11/many-contexts/%s" % fl, "%s payloads ran in several (loop/run, thread) contexts: %r" % (fl, sorted(map(str, ctxs[fl]))))
            ctxs = {"asyncio": set(), "trio": set(), "threading": set(ctxs["threading"])}
        if e["kind"] == "start" and e["pid"] in specs:
            fl = specs[e["pid"]]["flavour"]
            c = e["ctx"]
            if fl == "asyncio":
                ctxs[fl].add((c["loop"], c["sid"]))
                modes[fl].add(e["mode"])
                if c["loop"] is None or c["trio"] is not None:
                    V("C11/context/asyncio/%s" % e["mode"], "asyncio payload %s (%s) ran in context %r" % (e["pid"], e["mode"], c))
            elif fl == "trio":
                ctxs[fl].add((c["trio"], c["sid"]))
                modes[fl].add(e["mode"])
                if c["trio"] is None or c["loop"] is not None:
                    V("C11/context/trio/%s" % e["mode"], "trio payload %s (%s) ran in context %r" % (e["pid"], e["mode"], c))
            else:
                if e["mode"] != "execute":
                    ctxs[fl].add(c["sid"])
    for fl in ("asyncio", "trio"):
        if len(ctxs[fl]) > 1:
            V("C11/many-contexts/%s" % fl, "%s payloads ran in several (loop/run, thread) contexts: %r" % (fl, sorted(map(str, ctxs[fl]))))
    for prev in all_ctxs:  # the threads of the first run's loops count as loop threads throughout
        for fl in ("asyncio", "trio"):
            ctxs[fl] = ctxs[fl] | prev[fl]
    loop_sids = {c[1] for fl in ("asyncio", "trio") for c in ctxs[fl]}
    if ctxs["asyncio"] and {c[1] for c in ctxs["asyncio"]} != {h.accept_sid}:
        V("C11/asyncio-not-on-accept-thread", "asyncio payloads ran on sim threads %r, accept() runs on %r" % (sorted(c[1] for c in ctxs["asyncio"]), h.accept_sid))
    bad = ctxs["threading"] & loop_sids
    if bad:
        V("C11/thread-payload-on-loop-thread", "thread payloads ran on loop threads %r" % sorted(bad))
    # 2b. every line of a coroutine payload - clean-up in finally blocks included - runs on the thread of
    #     its flavour (a payload finalised by the garbage collector runs its clean-up wherever that
    #     collection happens to take place)
    home = {fl: {c[1] for c in ctxs[fl]} for fl in ("asyncio", "trio")}
    for e in ev:
        pid_ = e.get("pid")
        if pid_ in specs and specs[pid_]["flavour"] in ("asyncio", "trio") and e["kind"] in ("hb", "step", "cleanup-step", "finished", "destroyed", "cancelled", "blocking", "payload-called"):
            fl_ = specs[pid_]["flavour"]
            if home[fl_] and e["sid"] not in home[fl_]:
                V("C11/payload-code-on-foreign-thread/%s" % fl_, "%s payload %s executed '%s' on sim thread %s; %s payloads live on thread(s) %r" % (fl_, pid_, e["kind"], e["sid"], fl_, sorted(home[fl_])))
                break
    # 3. heartbeats keep ticking while thread payloads block
    late = 0
    nticks = 0
    for pid, spec in sorted(specs.items()):
        if not spec.get("hb"):
            continue
        period = spec["steps"][0][1]
        ticks = [e for e in ev if e["kind"] == "hb" and e["pid"] == pid and e["seq"] < m_seq]
        nticks += len(ticks)
        for a, b in zip(ticks, ticks[1:]):
            d = b["t"] - a["t"]
            if d > period + TOL or d < period - 1e-9:
                late += 1
                V("C11/heartbeat-late/%s" % spec["flavour"], "%s payload %s (period %.2f) ticked after %.4fs (t=%.4f -> %.4f) while thread payloads were blocking" % (spec["flavour"], pid, period, d, a["t"], b["t"]))
        if mark is not None and ticks and mark["t"] - ticks[-1]["t"] > period + TOL:
            V("C11/heartbeat-stopped/%s" % spec["flavour"], "%s payload %s (period %.2f) last ticked at %.4f, %.4fs before the shutdown" % (spec["flavour"], pid, period, ticks[-1]["t"], mark["t"] - ticks[-1]["t"]))
        if mark is not None and not ticks:
            st = [e for e in ev if e["kind"] == "start" and e["pid"] == pid]
            if st and mark["t"] - st[0]["t"] > 0.1:
                V("C11/heartbeat-stopped/%s" % spec["flavour"], "%s payload %s started but never ticked" % (spec["flavour"], pid))
    nblock = sum(1 for e in ev if e["kind"] == "blocking" and specs[e["pid"]]["flavour"] == "threading")
    S.probe("max-section-depth-asyncio", 0)
    shape = ["C11", sorted((specs[p]["flavour"], specs[p].get("via")) for p in specs), sorted(modes["asyncio"]), sorted(modes["trio"]), nblock]
    nontrivial = nticks > 4 and (len(modes["asyncio"]) + len(modes["trio"]) > 2 or nblock > 0)
    return v, shape, nontrivial
