"""rtsim scheduler: real OS threads, exactly one of which holds the baton.

Every synchronisation operation (SimLock), every monitored source line and
every idle wait of an event loop is a call into this scheduler; the tape
decides who runs next.  Virtual time only moves here.
"""
import _thread
import signal
import sys
import zlib

_real_allocate = _thread.allocate_lock
_real_get_ident = _thread.get_ident

NEW, RUNNABLE, BLOCKED, DONE = "new", "runnable", "blocked", "done"
IO = "io"  # blocked_on marker for idle waits of the event loops


class SimThread:
    __slots__ = ("sid", "name", "state", "gate", "blocked_on", "deadline", "threadobj", "wake_reason", "consec", "prio", "steps", "is_main", "joiners", "ready_since", "quantum")

    def __init__(self, sid, name, threadobj=None):
        self.sid = sid
        self.name = name
        self.state = NEW
        self.gate = _real_allocate()
        self.gate.acquire()
        self.blocked_on = None
        self.deadline = None
        self.threadobj = threadobj
        self.wake_reason = None
        self.consec = 0
        self.prio = 0.0
        self.steps = 0
        self.is_main = False
        self.joiners = []
        self.ready_since = 0
        self.quantum = 0

    def __repr__(self):
        return "<sim %d %s %s>" % (self.sid, self.name, self.state)


class Abort(BaseException):
    pass


class Scheduler:
    def __init__(self):
        self.active = False
        self._tls = _thread._local()
        self.reset()

    def reset(self):
        self.threads = []
        self.now = 0.0
        self.steps = 0
        self.switches = 0
        self.tape = None
        self.strategy = None
        self.step_cap = 400000
        self.horizon = 1e9
        self.delta = 1e-4
        self.sigint_pending = False
        self.main = None
        self.on_abort = None
        self.trace = []  # (sid, where) at every switch, for the schedule digest
        self.trace_hash = 0
        self.switch_pairs = set()
        self.faults = {}
        self.probes = {}
        self.last_where = None
        self.aborting = False
        self.starve_limit = 400
        self.slow_starts = []  # fault plan: [{"nth": k, "dur": seconds}] - the k-th thread started gets going late
        self.started_count = 0
        self.started_armed = 0
        self.stalls = []  # fault plan: [{"func": name, "nth": n, "dur": seconds}] - a thread descheduled for a while
        self.stall_seen = {}
        self.stall_seen_armed = {}
        self.stall_armed = False  # set by the harness when a termination trigger fires
        self.stall_total = 0.0
        self.until_waiters = []  # [thread, function name, lines still to see]
        self.harness_failure = None
        self.quantum_len = 150
        self.marker_hooks = []

    # -- identity --------------------------------------------------------
    def current(self):
        return getattr(self._tls, "st", None)

    def begin(self, name="main"):
        """Turn the calling (real main) thread into sim thread 0 and start simulating."""
        self.reset_tls()
        st = SimThread(0, name)
        st.state = RUNNABLE
        st.is_main = True
        self.threads = [st]
        self.main = st
        self._tls.st = st
        self.active = True
        return st

    def reset_tls(self):
        try:
            del self._tls.st
        except AttributeError:
            pass

    def count_fault(self, kind, n=1):
        self.faults[kind] = self.faults.get(kind, 0) + n

    def probe(self, name, n=1):
        self.probes[name] = self.probes.get(name, 0) + n

    # -- thread lifecycle ------------------------------------------------
    def new_thread(self, threadobj, name):
        st = SimThread(len(self.threads), name, threadobj)
        self.threads.append(st)
        if self.strategy is not None:
            self.strategy.on_new_thread(self, st)
        return st

    def thread_started(self, st):
        """The OS thread exists (parked on its gate): it may be scheduled now."""
        if st.state == NEW:
            st.state = RUNNABLE
            st.ready_since = self.steps

    def child_enter(self, st):
        st.gate.acquire()  # wait for the first baton
        self._tls.st = st

    def maybe_slow_start(self, st):
        """Fault: a freshly created OS thread gets its first time slice only after a while."""
        self.started_count += 1
        if self.stall_armed:
            self.started_armed = getattr(self, "started_armed", 0) + 1
        for p in self.slow_starts:
            if p.get("after"):
                # the first `count` threads created once a termination trigger has fired
                hit = self.stall_armed and self.started_armed <= p.get("count", 1)
            else:
                hit = p["nth"] == self.started_count
            if hit and self.active and not self.aborting:
                self.count_fault("slow-thread-start")
                self.probe("slow-start:" + st.name.split("#")[0])
                self.stall_total += p["dur"]
                deadline = self.now + p["dur"]
                while self.now < deadline:
                    self.block(st, "stall", deadline)
                return

    def thread_exit(self, st):
        st.state = DONE
        for j in st.joiners:
            self.wake(j, "joined")
        st.joiners = []
        if self.aborting:
            return
        nxt = self._pick_next(st)
        self.reset_tls()
        self._handoff(st, nxt, park=False)

    # -- core ------------------------------------------------------------
    def _handoff(self, cur, nxt, park=True):
        if nxt is cur:
            return
        self.switches += 1
        self.trace_hash = (self.trace_hash * 1000003 + nxt.sid * 7919 + zlib.crc32(repr(self.last_where).encode())) & 0xFFFFFFFFFFFF
        pair = (cur.name.split("#")[0], str(self.last_where), nxt.name.split("#")[0])
        if len(self.switch_pairs) < 5000:
            self.switch_pairs.add(pair)
        cur.consec = 0
        cur.ready_since = self.steps
        nxt.gate.release()
        if park:
            cur.gate.acquire()

    def _runnable(self, exclude=None):
        return [t for t in self.threads if t.state == RUNNABLE and t is not exclude]

    def _expire(self):
        now = self.now
        for t in self.threads:
            if t.state == BLOCKED and t.deadline is not None and t.deadline <= now:
                t.state = RUNNABLE
                t.ready_since = self.steps
                t.wake_reason = "timeout"

    def wake(self, st, reason):
        if st.state == BLOCKED:
            st.state = RUNNABLE
            st.ready_since = self.steps
            st.wake_reason = reason

    def notify_io(self):
        for t in self.threads:
            if t.state == BLOCKED and t.blocked_on is IO:
                t.state = RUNNABLE
                t.ready_since = self.steps
                t.wake_reason = "io"

    def _pick_next(self, cur):
        """Choose who runs next when `cur` cannot continue (blocked or done)."""
        while True:
            cands = self._runnable()
            if cands:
                break
            deadlines = [t.deadline for t in self.threads if t.state == BLOCKED and t.deadline is not None]
            if not deadlines:
                self.abort("deadlock")
            tmin = min(deadlines)
            if tmin > self.horizon:
                self.abort("horizon")
            if tmin > self.now:
                self.now = tmin
            self._expire()
        if len(cands) == 1:
            return cands[0]
        strat = self.strategy
        k = self.tape.take(len(cands), (lambda rng: strat.pick(self, rng, cands)) if strat else None)
        return cands[k]

    def yield_point(self, where):
        cur = getattr(self._tls, "st", None)
        if cur is None or not self.active:
            return
        self.steps += 1
        cur.steps += 1
        if self.steps > self.step_cap:
            self.abort("step-cap")
        self.last_where = where
        if self.sigint_pending and cur.is_main:
            self._deliver_sigint()
        if self.stalls and where[0] == "L":
            if self.until_waiters:
                for w in self.until_waiters:
                    if w[1] == where[1] and w[0] is not cur:
                        w[2] -= 1
                        if w[2] <= 0:
                            self.wake(w[0], "until")
                self.until_waiters = [w for w in self.until_waiters if w[2] > 0]
            self._maybe_stall(cur, where[1], where[2])
        cands = [t for t in self.threads if t.state == RUNNABLE and t is not cur]
        if not cands:
            return
        cur.consec += 1
        # weak fairness is part of the scheduler itself (search and replay alike, no tape entry):
        # a real OS scheduler does not starve a runnable thread for ever, and the liveness oracles
        # rely on that.  A starving thread is switched to and gets a time slice.
        if cur.quantum > 0:
            cur.quantum -= 1
            return
        lim = self.starve_limit
        worst = None
        steps = self.steps
        for c in cands:
            w = steps - c.ready_since
            if w > lim and (worst is None or w > worst[0]):
                worst = (w, c)
        if worst is not None:
            self.probe("fairness-forced-switch")
            worst[1].quantum = self.quantum_len
            self._handoff(cur, worst[1])
        else:
            strat = self.strategy
            k = self.tape.take(len(cands) + 1, (lambda rng: strat.preempt(self, rng, cur, cands, where)) if strat else None)
            if k:
                self._handoff(cur, cands[k - 1])
        if self.sigint_pending and cur.is_main:
            self._deliver_sigint()

    def _maybe_stall(self, cur, func, line=0):
        """Fault: the OS deschedules a thread for a while right here (slow / starved thread)."""
        # every planned stall counts the lines of its function on its own: from the start or
        # from the termination trigger ("after"), by any thread or only by threads other than
        # the main thread ("not_main": submitters, payload threads, the trio thread)
        for i, st in enumerate(self.stalls):
            if st["func"] != func:
                continue
            if st.get("after") and not self.stall_armed:
                continue
            if st.get("not_main") and cur.is_main:
                continue
            c = self.stall_seen[i] = self.stall_seen.get(i, 0) + 1
            if c == st["nth"]:
                self.count_fault("stall-in:" + func)
                self.probe("stall-at:%s:%s:%s" % (func, line, cur.name.split("#")[0]))
                self.stall_total += st["dur"]
                deadline = self.now + st["dur"]
                if st.get("until"):
                    # descheduled until another thread has executed `k` more lines of function `until`
                    # (or until `dur` has passed): aligns this thread with the progress of another one
                    self.count_fault("stall-until:" + st["until"])
                    self.until_waiters.append([cur, st["until"], int(st.get("k", 1))])
                    self.block(cur, "stall", deadline)
                    self.until_waiters = [w for w in self.until_waiters if w[0] is not cur]
                    return
                while self.now < deadline:
                    self.block(cur, "stall", deadline)

    def block(self, cur, on, deadline):
        """Park `cur` until woken or until the virtual deadline. Returns the wake reason."""
        if self.aborting:
            raise Abort()
        self.steps += 1
        if self.steps > self.step_cap:
            self.abort("step-cap")
        if deadline is not None and deadline <= self.now:
            return "timeout"
        cur.state = BLOCKED
        cur.quantum = 0
        cur.blocked_on = on
        cur.deadline = deadline
        cur.wake_reason = None
        self.last_where = ("block", on if on is IO else type(on).__name__)
        nxt = self._pick_next(cur)
        self._handoff(cur, nxt)
        cur.blocked_on = None
        cur.deadline = None
        if self.sigint_pending and cur.is_main:
            self._deliver_sigint()
        return cur.wake_reason

    def sleep(self, seconds):
        cur = self.current()
        if cur is None or not self.active:
            return
        if seconds <= 0:
            self.yield_point(("sleep0",))
            return
        deadline = self.now + seconds
        while self.now < deadline:
            self.block(cur, "sleep", deadline)

    def busy_poll(self, cur, which):
        """A loop iteration that found work: costs `delta` virtual seconds."""
        self.now += self.delta
        if self.now > self.horizon:
            self.abort("horizon")
        self._expire()
        self.yield_point(("poll", which))

    def jump_clock(self, seconds):
        self.now += seconds
        self._expire()
        self.count_fault("clock-jump")

    def wait_thread_exit(self, cur, target, deadline):
        while target.state != DONE:
            if deadline is not None and self.now >= deadline:
                return False
            target.joiners.append(cur)
            self.block(cur, target, deadline)
            if cur in target.joiners:
                target.joiners.remove(cur)
        return True

    # -- signals ---------------------------------------------------------
    def raise_sigint(self):
        self.sigint_pending = True
        m = self.main
        if m.state == BLOCKED:
            self.wake(m, "signal")

    def _deliver_sigint(self):
        self.sigint_pending = False
        handler = signal.getsignal(signal.SIGINT)
        if handler is signal.default_int_handler or not callable(handler):
            # nobody but CPython's default handler is installed: the runtime is not inside
            # asyncio.run (any more); raising KeyboardInterrupt into harness code tells nothing
            self.probe("sigint-dropped-default-handler")
            return
        self.count_fault("sigint-delivered")
        handler(signal.SIGINT, None)

    # -- end of run --------------------------------------------------------
    def thread_dump(self):
        import traceback

        frames = sys._current_frames()
        out = []
        for t in self.threads:
            ident = getattr(t.threadobj, "ident", None) if t.threadobj is not None else None
            if t.is_main:
                import threading

                ident = threading.main_thread().ident
            stack = []
            fr = frames.get(ident)
            if fr is not None:
                for fs in traceback.extract_stack(fr)[-30:]:
                    stack.append("%s:%d:%s" % (fs.filename.split("/")[-1], fs.lineno, fs.name))
            out.append({"sid": t.sid, "name": t.name, "state": t.state, "prio": t.prio, "consec": t.consec, "steps": t.steps, "on": (t.blocked_on if isinstance(t.blocked_on, str) else type(t.blocked_on).__name__), "deadline": t.deadline, "stack": stack})
        return out

    def abort(self, reason):
        """End the run from whichever thread noticed; never returns."""
        self.aborting = True
        self.active = False
        if self.on_abort is not None:
            self.on_abort(reason)
        raise Abort(reason)


S = Scheduler()


# -- strategies --------------------------------------------------------------
WINDOW_FUNCS = {
    "register_payload",
    "_unqueue_payloads",
    "_aclose_runners",
    "_accept_services",
    "_adopt_services",
    "aclose",
    "_aclose_trio",
    "shutdown",
    "stop",
    "_launch_runners",
    "_manage_runners",
    "_manage_payloads_trio",
    "_monitor_payload",
    "_setup_payload",
    "_set_failure",
    "start",
    "run_payload",
    "accept",
    "run",
}


class RandomWalk:
    name = "random"

    def __init__(self, p, p_window=None):
        self.p = p
        self.p_window = p_window
        self.name = "random(p=%s%s)" % (p, "" if p_window is None else ",window=%s" % p_window)

    def on_new_thread(self, sched, st):
        pass

    def preempt(self, sched, rng, cur, cands, where):
        p = self.p
        if self.p_window is not None and where[0] == "L" and where[1] in WINDOW_FUNCS:
            p = self.p_window
        if cur.consec > sched.starve_limit:
            cur.consec = 0
            return 1 + rng.randrange(len(cands))
        if rng.random() < p:
            return 1 + rng.randrange(len(cands))
        return 0

    def pick(self, sched, rng, cands):
        return rng.randrange(len(cands))


class PCT:
    """Probabilistic concurrency testing: random priorities, d change points."""

    def __init__(self, depth, length, rng):
        self.name = "pct(d=%d)" % depth
        self.change_points = sorted(rng.randrange(1, max(2, length)) for _ in range(depth))
        self.rng = rng
        self.low = 0.0

    def on_new_thread(self, sched, st):
        st.prio = 1.0 + self.rng.random()

    def _demote(self, st):
        self.low -= 1.0
        st.prio = self.low

    def preempt(self, sched, rng, cur, cands, where):
        while self.change_points and sched.steps >= self.change_points[0]:
            self.change_points.pop(0)
            self._demote(cur)
        if cur.consec > sched.starve_limit:
            self._demote(cur)
        best = max(cands, key=lambda t: t.prio)
        if best.prio > cur.prio:
            return 1 + cands.index(best)
        return 0

    def pick(self, sched, rng, cands):
        best = max(cands, key=lambda t: t.prio)
        return cands.index(best)


def make_strategy(spec, rng):
    kind = spec.get("kind", "random")
    if kind == "pct":
        return PCT(int(spec.get("d", 2)), int(spec.get("len", 3000)), rng)
    return RandomWalk(float(spec.get("p", 0.05)), spec.get("p_window"))
