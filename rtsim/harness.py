"""rtsim harness: payload library, driver scripts, event log, main-thread script.

A scenario is plain JSON (see gen functions of the property modules).  All
payload behaviour is interpreted from it, so (scenario, tape) determines the run.
"""
import asyncio
import gc
import logging
import functools
import sys
import threading
import time
import warnings

import trio

from .sched import S, DONE
from . import patches

from cobald.daemon.runners.service import ServiceRunner, ServiceUnit, service
from cobald.daemon.runners.base_runner import OrphanedReturn

import re

_ADDR = re.compile(r"0x[0-9a-fA-F]+")

FLAVOURS = {"asyncio": asyncio, "trio": trio, "threading": threading}


# -- failure / return value kinds ------------------------------------------------
class OddInit(Exception):
    """Exception subclass whose constructor needs two arguments (cannot be re-created from args)."""

    def __init__(self, a, b):
        super().__init__(a)
        self.b = b


class SilentStr(Exception):
    def __str__(self):
        return ""


class FalsyError(Exception):
    """A result-like exception: truthy on success, raised (and falsy) on failure."""

    def __bool__(self):
        return False


class EmptyErrors(Exception):
    """An aggregate error that happens to hold no items: len() == 0, hence falsy."""

    def __len__(self):
        return 0


class BaseSub(BaseException):
    pass


def make_exception(kind, pid):
    if kind == "LookupError":
        return LookupError(pid)
    if kind == "KeyError":
        return KeyError(pid)
    if kind == "ValueError":
        return ValueError(pid)
    if kind == "OSError":
        return OSError(2, pid)
    if kind == "RuntimeError":
        return RuntimeError(pid)
    if kind == "AssertionError":
        return AssertionError(pid)
    if kind == "OddInit":
        return OddInit(pid, 7)
    if kind == "SilentStr":
        return SilentStr()
    if kind == "FalsyError":
        return FalsyError(pid)
    if kind == "EmptyErrors":
        return EmptyErrors(pid)
    if kind == "WithCause":
        e = ValueError(pid)
        e.__cause__ = KeyError("inner " + pid)
        return e
    if kind == "ExceptionGroup":
        return ExceptionGroup("group " + pid, [ValueError(pid), KeyError(pid)])
    if kind == "TimeoutError":
        return TimeoutError(pid)
    if kind == "CancelledContext":
        # what asyncio.wait_for / asyncio.timeout produce: an ordinary exception raised while an
        # (internal) cancellation was being handled; the payload itself was not cancelled
        e = LookupError(pid)  # (not TimeoutError: its identity through execute() is a known finding of its own)
        e.__context__ = asyncio.CancelledError()
        return e
    if kind == "CancelledCause":
        e = ValueError(pid)
        e.__cause__ = asyncio.CancelledError("helper task was cancelled")
        return e
    if kind == "StopIteration":
        return StopIteration(pid)
    if kind == "StopAsyncIteration":
        return StopAsyncIteration(pid)
    if kind == "BaseException":
        return BaseException(pid)
    if kind == "BaseSub":
        return BaseSub(pid)
    if kind == "SystemExit":
        return SystemExit(3)
    if kind == "GeneratorExit":
        return GeneratorExit(pid)
    if kind == "KeyboardInterrupt":
        return KeyboardInterrupt()
    if kind == "OrphanedReturn":
        return OrphanedReturn("fake", pid)
    raise ValueError("unknown exception kind %r" % kind)


EXCEPTION_KINDS = ["LookupError", "KeyError", "ValueError", "OSError", "RuntimeError", "AssertionError", "OddInit", "SilentStr", "WithCause", "ExceptionGroup", "TimeoutError", "OrphanedReturn", "CancelledContext", "CancelledCause", "FalsyError", "EmptyErrors"]
ODD_EXCEPTION_KINDS = ["StopIteration", "StopAsyncIteration"]
BASE_KINDS = ["BaseException", "BaseSub", "SystemExit", "GeneratorExit"]


class Token:
    def __init__(self, pid):
        self.pid = pid

    def __repr__(self):
        return "Token(%s)" % self.pid


def make_value(kind, pid):
    if kind == "none":
        return None
    if kind == "0":
        return 0
    if kind == "0.0":
        return 0.0
    if kind == "False":
        return False
    if kind == "True":
        return True
    if kind == "''":
        return ""
    if kind == "[]":
        return []
    if kind == "()":
        return ()
    if kind == "{}":
        return {}
    if kind == "set()":
        return set()
    if kind == "str":
        return "value of " + pid
    if kind == "obj":
        return Token(pid)
    if kind == "exc-instance":
        return ValueError("returned, not raised: " + pid)
    if kind == "1.5":
        return 1.5
    if kind == "b''":
        return b""
    if kind == "array-like":
        return ArrayLike(pid)
    if kind == "NotImplemented":
        return NotImplemented
    if kind == "Ellipsis":
        return Ellipsis
    if kind == "coro-object":
        # a coroutine object handed back as a value (a factory of coroutines is an ordinary payload);
        # nobody is obliged to await it
        warnings.filterwarnings("ignore", message="coroutine .* was never awaited")
        return _unstarted_coroutine(pid)
    if kind == "generator-object":
        return _unstarted_generator(pid)
    raise ValueError("unknown value kind %r" % kind)


async def _unstarted_coroutine(pid):
    return pid


def _unstarted_generator(pid):
    yield pid


class ArrayLike:
    """Behaves like a numpy array where it matters: no truth value, == is element-wise."""

    def __init__(self, pid):
        self.pid = pid

    def __bool__(self):
        raise ValueError("The truth value of an array with more than one element is ambiguous")

    def __len__(self):
        return 2

    def __eq__(self, other):
        return self  # "element-wise": neither True nor False

    __hash__ = None

    def __repr__(self):
        return "array-like(%s)" % self.pid


FALSY_VALUES = ["0", "0.0", "False", "''", "[]", "()", "{}", "set()", "b''"]
TRUTHY_VALUES = ["True", "str", "obj", "exc-instance", "1.5", "array-like", "NotImplemented", "Ellipsis"]
# values that look like work still to be done (used by C10 only: what is returned is handed over untouched)
LAZY_VALUES = ["coro-object", "generator-object"]


def jsonable(x):
    if isinstance(x, (int, float, str, bool, type(None))):
        return x
    if isinstance(x, (list, tuple)):
        return [jsonable(i) for i in x]
    if isinstance(x, dict):
        return {str(k): jsonable(v) for k, v in x.items()}
    return type(x).__name__


class Done(Exception):
    """internal: payload interpretation finished with a return value"""

    def __init__(self, value):
        self.value = value


class Harness:
    def __init__(self, scenario):
        self.sc = scenario
        self.knobs = scenario.get("knobs", {})
        self.events = []
        self.seq = 0
        self.specs = {p["id"]: p for p in scenario.get("payloads", [])}
        self.raised = {}  # pid -> exception object raised by the payload
        self.returned = {}  # pid -> object returned
        self.services = {}  # pid -> strong ref to service object (until dropped)
        self.tokens = []  # identity -> small int
        self.sections = {"asyncio": 0, "trio": 0, "threading": 0}
        self.started_units = []  # (service object, unit) of every unit start
        self.segment = {}  # flavour -> coroutine payload currently between two of its checkpoints
        self.section_max = {"asyncio": 0, "trio": 0, "threading": 0}
        self.markers = {}
        self.exec_results = []  # records of execute calls
        self.adopt_results = []
        self.runners = []
        self.runner = None
        self.accept_sid = None
        self.log_records = []
        self.finalized = False
        self.check_fn = None
        self.result_sink = None
        self.extra = {}
        CURRENT["h"] = self

    # -- logging ---------------------------------------------------------
    def ev(self, kind, pid=None, **data):
        self.seq += 1
        cur = S.current()
        e = {"seq": self.seq, "t": round(S.now, 9), "sid": cur.sid if cur else -1, "kind": kind}
        if pid is not None:
            e["pid"] = pid
        if data:
            for k, val in data.items():
                if isinstance(val, str) and "0x" in val:
                    data[k] = _ADDR.sub("0x?", val)  # object addresses differ between processes
            e.update(data)
        self.events.append(e)
        if not S.stall_armed and (kind in ("shutdown-call", "stop-call", "sigint-sent") or (kind in ("raise", "return") and self.specs.get(pid, {}).get("trigger"))):
            S.stall_armed = True  # stalls planned "after the trigger" start counting lines from here
        m = self.markers.get(kind if pid is None else "%s:%s" % (kind, pid))
        if m is not None:
            m.set()
        m = self.markers.get(kind)
        if m is not None:
            m.set()
        return e

    def marker(self, name):
        m = self.markers.get(name)
        if m is None:
            m = self.markers[name] = threading.Event()
            # already happened?
            for e in self.events:
                if e["kind"] == name or (e.get("pid") is not None and "%s:%s" % (e["kind"], e["pid"]) == name):
                    m.set()
                    break
        return m

    def token(self, obj):
        if obj is None:
            return None
        for i, o in enumerate(self.tokens):
            if o is obj:
                return i
        self.tokens.append(obj)
        return len(self.tokens) - 1

    def context(self):
        cur = S.current()
        try:
            loop = asyncio.get_running_loop()
        except RuntimeError:
            loop = None
        try:
            tok = trio.lowlevel.current_trio_token()
        except RuntimeError:
            tok = None
        return {"sid": cur.sid if cur else -1, "loop": self.token(loop), "trio": self.token(tok)}

    # -- payload construction ---------------------------------------------
    def payload_fn(self, pid):
        """The callable handed to adopt: a plain function by default, or (spec["callable"]) a functools.partial,
        a bound method, or a callable instance - the latter also in an unhashable variety (defines __eq__)."""
        return self._wrap_callable(self._plain_payload_fn(pid), pid)

    def _wrap_callable(self, fn, pid):
        kind = self.specs[pid].get("callable", "function")
        if kind == "function":
            return fn
        if kind == "partial":
            return functools.partial(fn)
        if kind == "partial-args":
            # a partial that carries arguments of its own: they come first / are merged
            return functools.partial(fn, "pre", pk="pre")
        is_async = self.specs[pid]["flavour"] != "threading"
        if kind == "method":
            return (_AsyncCarrier(fn) if is_async else _SyncCarrier(fn)).call
        if kind == "instance":
            return _AsyncCallable(fn) if is_async else _SyncCallable(fn)
        if kind == "unhashable-instance":
            return _AsyncUnhashable(fn) if is_async else _SyncUnhashable(fn)
        if kind == "module-none":
            # what bound methods of builtin objects look like (some_list.append, lock.release, ...):
            # callable, with a __qualname__, and with __module__ None
            c = _AsyncCallable(fn) if is_async else _SyncCallable(fn)
            c.__module__ = None
            c.__qualname__ = "list.append"
            return c
        if kind == "sync-prologue":
            # a coroutine function behind an ordinary synchronous decorator: the decorator's code runs
            # when the payload is called - and is payload code like the rest
            def prologue(*args, **kwargs):
                self.ev("payload-called", pid, ctx=self.context())
                return fn(*args, **kwargs)

            return prologue
        if kind == "lambda":
            # a plain callable that hands back whatever the payload function returns: for the
            # coroutine flavours that is a coroutine made by a function which is not itself async
            return lambda *args, **kwargs: fn(*args, **kwargs)
        raise ValueError("unknown callable kind %r" % kind)

    def _plain_payload_fn(self, pid):
        spec = self.specs[pid]
        fl = spec["flavour"]
        if fl == "threading":

            def sync_payload(*args, **kwargs):
                return self.run_sync(pid, args, kwargs)

            sync_payload.__qualname__ = sync_payload.__name__ = "payload_%s" % pid
            return sync_payload
        if spec.get("at_call"):
            # a coroutine payload that fails when it is *called*, before any coroutine exists: a factory
            # function that raises, a coroutine function handed the wrong number of arguments
            def failing_factory(*args, **kwargs):
                self._start_event(pid, args, kwargs, "background")
                self.sync_step(pid, spec["steps"][-1])

            failing_factory.__qualname__ = failing_factory.__name__ = "payload_%s" % pid
            return failing_factory
        if fl == "asyncio":

            async def aio_payload(*args, **kwargs):
                return await self.run_async(pid, args, kwargs, asyncio.sleep, asyncio.CancelledError)

            aio_payload.__qualname__ = aio_payload.__name__ = "payload_%s" % pid
            return aio_payload

        async def trio_payload(*args, **kwargs):
            return await self.run_async(pid, args, kwargs, trio.sleep, trio.Cancelled)

        trio_payload.__qualname__ = trio_payload.__name__ = "payload_%s" % pid
        return trio_payload

    def started_units_tainted(self):
        """Services one of whose *superseded* units was started (classes decorated twice, known finding)."""
        return sorted({getattr(svc, "pid", None) for svc, unit in self.started_units if getattr(svc, "__service_unit__", None) is not unit} - {None})

    def make_service(self, pid):
        spec = self.specs[pid]
        cls = SERVICE_CLASSES.get((spec["flavour"], spec.get("svc_class"))) or SERVICE_CLASSES[(spec["flavour"], None)]
        svc = cls(self, pid)
        self.ev("service-created", pid, ctx=self.context())
        if not spec.get("drop_immediately"):
            self.services[pid] = svc
        return svc

    def _start_event(self, pid, args, kwargs, mode):
        spec = self.specs[pid]
        want_args = [jsonable(make_arg(a)) for a in spec.get("args", [])]
        want_kwargs = {k: jsonable(make_arg(v)) for k, v in spec.get("kwargs", {}).items()}
        if spec.get("callable") == "partial-args":
            want_args = ["pre"] + want_args
            want_kwargs = dict({"pk": "pre"}, **want_kwargs)
        got_args = [jsonable(a) for a in args]
        got_kwargs = {k: jsonable(v) for k, v in kwargs.items()}
        self.ev("start", pid, ctx=self.context(), args=got_args, kwargs=got_kwargs, args_ok=(got_args == want_args and got_kwargs == want_kwargs), mode=mode)

    # -- step interpretation ----------------------------------------------
    def sync_step(self, pid, step):
        """Steps that need no flavour specific waiting. Returns True if handled."""
        op = step[0]
        if op == "raise":
            exc = make_exception(step[1], pid)
            self.raised[pid] = exc
            self.ev("raise", pid, exc=step[1])
            S.count_fault("payload-raise:" + step[1])
            raise exc
        if op == "return":
            val = make_value(step[1], pid)
            self.returned[pid] = val
            self.ev("return", pid, value=step[1])
            if step[1] != "none":
                S.count_fault("payload-return:" + step[1])
            raise Done(val)
        if op == "adopt":
            self.do_adopt(step[1], by=pid)
            return True
        if op == "execute":
            self.do_execute(step[1], by=pid)
            return True
        if op == "create-service":
            self.make_service(step[1])
            return True
        if op == "drop-ref":
            self.services.pop(step[1], None)
            self.ev("drop-ref", step[1])
            return True
        if op == "gc":
            n = gc.collect()
            S.count_fault("gc")
            self.ev("gc", pid, collected=n)
            return True
        if op == "shutdown":
            self.do_shutdown(by=pid, runner=self.runner)
            return True
        if op == "mark":
            self.ev("mark:" + step[1], pid)
            return True
        if op == "section":
            _section(self, self.specs[pid]["flavour"], pid, step[1])
            return True
        if op == "jump":
            S.jump_clock(step[1])
            self.ev("clock-jump", pid, by=step[1])
            return True
        return False

    def run_sync(self, pid, args, kwargs, mode="background"):
        spec = self.specs[pid]
        self._start_event(pid, args, kwargs, mode)
        try:
            for step in spec.get("steps", []):
                op = step[0]
                if self.sync_step(pid, step):
                    continue
                if op == "sleep":
                    time.sleep(step[1])
                    self.ev("step", pid)
                elif op == "spin":
                    for _ in range(step[1]):
                        time.sleep(0)
                    self.ev("step", pid)
                elif op == "hb":
                    k = 0
                    while step[2] is None or k < step[2]:
                        self.ev("hb", pid, k=k)
                        if len(step) > 3 and step[3]:
                            _section(self, spec["flavour"], pid, step[3])
                        time.sleep(step[1])
                        k += 1
                elif op == "block":
                    self.ev("blocking", pid)
                    S.count_fault("thread-blocks-forever")
                    threading.Event().wait()
                elif op == "wait-marker":
                    # a thread payload that reacts to something happening elsewhere (the termination, say)
                    self.marker(step[1]).wait()
                    self.ev("step", pid)
                elif op == "stall":
                    S.count_fault("stall")
                    self.ev("stall", pid, d=step[1])
                    S.sleep(step[1])
                elif op == "private-loop":
                    # a thread payload that runs an event loop of its own (e.g. around a client library)
                    # and talks to the runtime from inside it
                    self.ev("private-loop", pid)
                    S.probe("submission-from-private-asyncio-loop")
                    asyncio.run(self._private_loop(pid, step[1]))
                    self.ev("step", pid)
                elif op == "private-trio":
                    # a thread payload that drives a trio run of its own and talks to the runtime from inside it
                    self.ev("private-trio", pid)
                    S.probe("submission-from-private-trio-run")
                    trio.run(self._private_trio, pid, step[1])
                    self.ev("step", pid)
                else:
                    raise ValueError("unknown step %r" % (step,))
        except Done as d:
            return d.value
        finally:
            for _ in range(spec.get("cleanup_sync", 0)):
                self.ev("cleanup-step", pid)
            self.ev("finished", pid)
        return None

    async def _private_trio(self, pid, substeps):
        for st in substeps:
            if st[0] == "sleep":
                await trio.sleep(st[1])
            elif st[0] == "execute-in-thread":
                # the blocking execute() is moved to a worker thread of *this* (foreign) trio run
                await trio.to_thread.run_sync(functools.partial(self.do_execute, st[1], pid))
            elif not self.sync_step(pid, st):
                raise ValueError("unknown private-trio step %r" % (st,))

    async def _private_loop(self, pid, substeps):
        for st in substeps:
            if st[0] == "sleep":
                await asyncio.sleep(st[1])
            elif not self.sync_step(pid, st):
                raise ValueError("unknown private-loop step %r" % (st,))

    def _seg_enter(self, fl, pid):
        # a coroutine payload starts or resumes: no other payload of its flavour may be
        # between two checkpoints right now (in another thread, or further down this stack)
        cur = self.segment.get(fl)
        if cur is not None and cur != pid:
            self.ev("nested-segment", pid, flavour=fl, inside=cur)
        self.segment[fl] = pid

    def _seg_leave(self, fl, pid):
        if self.segment.get(fl) == pid:
            self.segment[fl] = None

    async def run_async(self, pid, args, kwargs, sleep, cancel_type, mode="background"):
        spec = self.specs[pid]
        fl = spec["flavour"]
        self._start_event(pid, args, kwargs, mode)
        raw_sleep = sleep

        async def checkpoint(aw):
            self._seg_leave(fl, pid)
            try:
                r = await aw
            except GeneratorExit:
                raise  # finalised by the garbage collector, not resumed
            except BaseException:
                self._seg_enter(fl, pid)
                raise
            self._seg_enter(fl, pid)
            return r

        def sleep(d):
            return checkpoint(raw_sleep(d))

        self._seg_enter(fl, pid)
        try:
            for step in spec.get("steps", []):
                op = step[0]
                if self.sync_step(pid, step):
                    continue
                if op == "sleep":
                    await sleep(step[1])
                    self.ev("step", pid)
                elif op == "spin":
                    for _ in range(step[1]):
                        await sleep(0)
                    self.ev("step", pid)
                elif op == "hb":
                    k = 0
                    while step[2] is None or k < step[2]:
                        self.ev("hb", pid, k=k)
                        if len(step) > 3 and step[3]:
                            _section(self, fl, pid, step[3])
                        await sleep(step[1])
                        k += 1
                elif op == "block":
                    self.ev("blocking", pid)
                    while True:
                        await sleep(3600.0)
                elif op == "hop":
                    # a short blocking call on a worker thread of the payload's own framework, n times
                    for k in range(step[1]):
                        self.ev("hop-begin", pid, k=k)
                        if fl == "asyncio":
                            await checkpoint(asyncio.get_running_loop().run_in_executor(None, _noop))
                        else:
                            await checkpoint(trio.to_thread.run_sync(_noop))
                        self.ev("hop-end", pid, k=k)
                        await sleep(step[2])
                elif op == "shutdown-in-thread":
                    # the well-behaved way for a coroutine payload to stop the daemon: the blocking
                    # shutdown() runs on a worker thread of the payload's own framework
                    the_runner = self.runner
                    call = functools.partial(self.do_shutdown, pid, the_runner)
                    if fl == "asyncio":
                        await checkpoint(asyncio.get_running_loop().run_in_executor(None, call))
                    else:
                        await checkpoint(trio.to_thread.run_sync(call))
                    self.ev("step", pid)
                elif op == "park":
                    # "run until cancelled" idiom: wait on an awaitable nobody else references
                    self.ev("blocking", pid)
                    if fl == "asyncio":
                        await checkpoint(asyncio.get_running_loop().create_future())
                    else:
                        await checkpoint(trio.sleep_forever())
                elif op == "swallow":
                    # a payload that shrugs off the first n cancellations (legal, if impolite):
                    # the runtime has to keep cancelling until the payload gives in
                    n = 0
                    self.ev("blocking", pid)
                    while True:
                        try:
                            await sleep(3600.0)
                        except cancel_type:
                            n += 1
                            self.ev("swallowed-cancel", pid, n=n)
                            S.count_fault("payload-swallows-cancellation")
                            if n > step[1]:
                                raise
                elif op == "spin-forever":
                    self.ev("spinning", pid)
                    k = 0
                    while True:
                        await sleep(0)
                        k += 1
                        if k % 50 == 0:
                            self.ev("step", pid)
                else:
                    raise ValueError("unknown step %r" % (step,))
        except Done as d:
            return d.value
        except cancel_type as c:
            self.ev("cancelled", pid, exc=type(c).__name__)
            raise
        except GeneratorExit:
            # the coroutine is being finalised (dropped by whoever held it, then collected):
            # it neither finished nor was it cancelled through its framework
            self.ev("destroyed", pid)
            raise
        finally:
            for _ in range(spec.get("cleanup_sync", 0)):
                self.ev("cleanup-step", pid)
            if spec.get("cleanup_adopt") and sys.exc_info()[0] is not GeneratorExit:
                # a supervised worker: whenever it goes down it hands a successor to the runtime
                self.do_adopt(spec["cleanup_adopt"], by=pid)
            length = spec.get("cleanup_async", 0)
            if length and fl == "trio" and sys.exc_info()[0] is not GeneratorExit:
                with trio.CancelScope(shield=True):
                    await checkpoint(trio.sleep(length))
                    self.ev("cleanup-async-done", pid)
            if spec.get("cleanup_execute") and sys.exc_info()[0] is not GeneratorExit:
                # clean-up code that still needs the runtime: refusing is fine, blocking for ever is not
                self.do_execute(spec["cleanup_execute"], by=pid)
                self.ev("cleanup-execute-done", pid)
            self.ev("finished", pid)
            self._seg_leave(fl, pid)
            if spec.get("cleanup_raise") and sys.exc_info()[0] is not None and issubclass(sys.exc_info()[0], cancel_type):
                # clean-up code that fails while the payload is being cancelled
                self.ev("cleanup-raised", pid, exc=spec["cleanup_raise"])
                raise make_exception(spec["cleanup_raise"], pid)
        return None

    # -- operations usable from drivers and payloads ------------------------
    def do_adopt(self, pid, by, runner=None):
        spec = self.specs[pid]
        times = spec.get("times", 1)
        if times > 1 and not getattr(self, "_in_multi", False):
            # the very same callable object handed to adopt several times, back to back:
            # these are `times` payloads and each has to be started
            self._in_multi = True
            try:
                for _ in range(times):
                    self.do_adopt(pid, by, runner)
            finally:
                self._in_multi = False
            return
        runner = runner or self.runner
        cache = self.__dict__.setdefault("_fn_cache", {})
        fn = cache.get(pid)
        if fn is None:
            fn = cache[pid] = self.payload_fn(pid)
        args = [make_arg(a) for a in spec.get("args", [])]
        kwargs = {k: make_arg(v) for k, v in spec.get("kwargs", {}).items()}
        self.ev("adopt-call", pid, by=by)
        t0, steps0 = S.now, S.steps
        try:
            r = runner.adopt(fn, *args, flavour=FLAVOURS[spec["flavour"]], **kwargs)
        except BaseException as err:
            self.ev("adopt-raised", pid, by=by, exc=type(err).__name__, text=str(err)[:120])
            self.adopt_results.append({"pid": pid, "by": by, "raised": type(err).__name__})
            if not isinstance(err, Exception):
                raise
            return
        self.ev("adopt-returned", pid, by=by, value=jsonable(r), dt=round(S.now - t0, 6))
        self.adopt_results.append({"pid": pid, "by": by, "raised": None, "value_is_none": r is None})

    def do_execute(self, pid, by, runner=None):
        spec = self.specs[pid]
        times = spec.get("times", 1)
        if times > 1 and not getattr(self, "_in_multi_exec", False):
            # the very same callable executed several times in a row: every call runs it again
            self._in_multi_exec = True
            try:
                for _ in range(times):
                    self.do_execute(pid, by, runner)
            finally:
                self._in_multi_exec = False
            return
        runner = runner or self.runner
        cache = self.__dict__.setdefault("_exec_fn_cache", {})
        fn = cache.get(pid)
        if fn is None:
            fn = cache[pid] = self.exec_fn(pid)
        args = [make_arg(a) for a in spec.get("args", [])]
        kwargs = {k: make_arg(v) for k, v in spec.get("kwargs", {}).items()}
        self.ev("execute-call", pid, by=by)
        rec = {"pid": pid, "by": by}
        try:
            r = runner.execute(fn, *args, flavour=FLAVOURS[spec["flavour"]], **kwargs)
        except Exception as err:
            rec.update(raised=type(err).__name__, same=err is self.raised.get(pid), text=str(err)[:120])
            self.ev("execute-raised", pid, by=by, exc=type(err).__name__, same=rec["same"])
        else:
            rec.update(raised=None, same=(r is self.returned.get(pid)) if pid in self.returned else (r is None), value=jsonable(r))
            self.ev("execute-returned", pid, by=by, same=rec["same"])
        self.exec_results.append(rec)

    def exec_fn(self, pid):
        spec = self.specs[pid]
        fl = spec["flavour"]
        if fl == "threading":

            def sync_exec(*args, **kwargs):
                return self.run_sync(pid, args, kwargs, mode="execute")

            return self._wrap_callable(sync_exec, pid)
        if fl == "asyncio":

            async def aio_exec(*args, **kwargs):
                return await self.run_async(pid, args, kwargs, asyncio.sleep, asyncio.CancelledError, mode="execute")

            return self._wrap_callable(aio_exec, pid)

        async def trio_exec(*args, **kwargs):
            return await self.run_async(pid, args, kwargs, trio.sleep, trio.Cancelled, mode="execute")

        return self._wrap_callable(trio_exec, pid)

    def do_shutdown(self, by, runner):
        self.ev("shutdown-call", by=by, runner=self.runners.index(runner))
        S.count_fault("shutdown")
        try:
            runner.shutdown()
        except BaseException as err:
            self.ev("shutdown-raised", by=by, exc=type(err).__name__, text=str(err)[:120])
            if not isinstance(err, Exception):
                raise
            return
        self.ev("shutdown-returned", by=by, runner=self.runners.index(runner))

    def do_stop(self, by, runner):
        self.ev("stop-call", by=by)
        S.count_fault("stop")
        try:
            runner._meta_runner.stop()
        except BaseException as err:
            self.ev("stop-raised", by=by, exc=type(err).__name__, text=str(err)[:120])
            if not isinstance(err, Exception):
                raise
            return
        self.ev("stop-returned", by=by)

    # -- drivers -----------------------------------------------------------
    def driver(self, spec):
        did = spec["id"]
        runner = self.runner
        try:
            for step in spec["script"]:
                op = step[0]
                if op == "wait-running":
                    runner.running.wait()
                    self.ev("saw-running", did)
                elif op == "wait-meta-running":
                    runner._meta_runner.running.wait()
                    self.ev("saw-meta-running", did)
                elif op == "wait-marker":
                    self.marker(step[1]).wait()
                elif op == "sleep":
                    time.sleep(step[1])
                elif op == "adopt":
                    self.do_adopt(step[1], by=did, runner=runner)
                elif op == "execute":
                    self.do_execute(step[1], by=did, runner=runner)
                elif op == "create-service":
                    self.make_service(step[1])
                elif op == "drop-ref":
                    self.services.pop(step[1], None)
                    self.ev("drop-ref", step[1])
                elif op == "gc":
                    n = gc.collect()
                    S.count_fault("gc")
                    self.ev("gc", did, collected=n)
                elif op == "shutdown":
                    self.do_shutdown(by=did, runner=runner)
                elif op == "stop":
                    self.do_stop(by=did, runner=runner)
                elif op == "sigint":
                    self.ev("sigint-sent", did)
                    S.count_fault("sigint-sent")
                    S.raise_sigint()
                elif op == "use-runner":
                    runner = self.runners[step[1]]
                elif op == "accept-second":
                    other = ServiceRunner(accept_delay=self.knobs.get("accept_delay", 0.25))
                    self.ev("second-accept-call", did)
                    S.count_fault("concurrent-accept")
                    try:
                        other.accept()
                    except BaseException as err:
                        self.ev("second-accept-raised", did, exc=type(err).__name__)
                    else:
                        self.ev("second-accept-returned", did)
                elif op == "jump":
                    S.jump_clock(step[1])
                    self.ev("clock-jump", did, by=step[1])
                elif op == "stall":
                    S.count_fault("stall")
                    S.sleep(step[1])
                elif op == "mark":
                    self.ev("mark:" + step[1], did)
                else:
                    raise ValueError("unknown driver step %r" % (step,))
            self.ev("driver-done", did)
        except BaseException as err:
            self.ev("driver-died", did, exc=type(err).__name__, text=str(err)[:200])
            raise

    def start_drivers(self, specs=None):
        for spec in (self.sc.get("drivers", []) if specs is None else specs):
            t = threading.Thread(target=self.driver, args=(spec,), daemon=True, name="driver-" + spec["id"])
            t._target_name = "driver"
            t.start()

    # -- main thread ---------------------------------------------------------
    def new_runner(self):
        r = ServiceRunner(accept_delay=self.knobs.get("accept_delay", 0.25))
        self.runners.append(r)
        self.runner = r
        return r

    def pre_start(self, runner, phase=None):
        for p in self.sc.get("payloads", []):
            if phase is not None and p.get("phase", 0) != phase:
                continue
            if p.get("via") == "queued":
                self.do_adopt(p["id"], by="main", runner=runner)
            elif p.get("via") == "service-pre":
                self.make_service(p["id"])

    def run_accept(self, runner, mode="accept"):
        self.accept_sid = S.current().sid
        self.ev("accept-call", runner=self.runners.index(runner), mode=mode)
        try:
            if mode == "run":
                runner._meta_runner.run()
            else:
                runner.accept()
        except BaseException as err:
            info = describe_exception(self, err)
            self.ev("accept-ended", how="raised", runner=self.runners.index(runner), **info)
            self.last_error = err
            return err
        self.ev("accept-ended", how="returned", runner=self.runners.index(runner))
        return None


class _SyncCarrier:
    def __init__(self, fn):
        self.fn = fn

    def call(self, *args, **kwargs):
        return self.fn(*args, **kwargs)


class _AsyncCarrier(_SyncCarrier):
    async def call(self, *args, **kwargs):
        return await self.fn(*args, **kwargs)


class _SyncCallable:
    def __init__(self, fn):
        self.fn = fn

    def __call__(self, *args, **kwargs):
        return self.fn(*args, **kwargs)


class _AsyncCallable(_SyncCallable):
    async def __call__(self, *args, **kwargs):
        return await self.fn(*args, **kwargs)


class _SyncUnhashable(_SyncCallable):
    def __eq__(self, other):  # defining __eq__ without __hash__ makes instances unhashable
        return self is other


class _AsyncUnhashable(_AsyncCallable):
    def __eq__(self, other):
        return self is other


def make_arg(a):
    # scenario args are JSON; lists starting with "@" denote special python values
    if isinstance(a, list) and a and a[0] == "@tuple":
        return tuple(make_arg(x) for x in a[1:])
    if isinstance(a, list):
        return [make_arg(x) for x in a]
    if isinstance(a, dict):
        return {k: make_arg(v) for k, v in a.items()}
    return a


def flatten_causes(err, depth=0, out=None):
    """All exception objects reachable through __cause__ / __context__ / group members."""
    if out is None:
        out = []
    if err is None or depth > 12 or any(err is o for o in out):
        return out
    out.append(err)
    if isinstance(err, BaseExceptionGroup):
        for sub in err.exceptions:
            flatten_causes(sub, depth + 1, out)
    flatten_causes(err.__cause__, depth + 1, out)
    return out


def describe_exception(h, err):
    cause = err.__cause__
    chain = flatten_causes(cause) if cause is not None else []
    def _found(exc):
        if any(exc is c for c in chain):
            return True
        # trio re-derives (splits) exception groups on their way through nurseries and cancel
        # scopes: a payload that raised a group itself is matched through its leaves
        if isinstance(exc, BaseExceptionGroup):
            leaves = [x for x in flatten_causes(exc) if not isinstance(x, BaseExceptionGroup)]
            return bool(leaves) and all(any(leaf is c for c in chain) for leaf in leaves)
        return False

    matched_raise = [pid for pid, exc in h.raised.items() if _found(exc)]
    matched_return = [pid for pid, val in h.returned.items() if any(isinstance(c, OrphanedReturn) and c.value is val for c in chain)]
    return {
        "type": type(err).__name__,
        "is_runtime_error": type(err) is RuntimeError,
        "cause_types": [type(c).__name__ for c in chain],
        "cause_raise_pids": sorted(matched_raise),
        "cause_return_pids": sorted(matched_return),
        "self_is_raised_pid": [pid for pid, exc in h.raised.items() if exc is err],
    }


def _noop():
    return None


def _section(h, flavour, pid, n):
    # non-atomic enter / exit with monitored lines in between: if two threads can be in here
    # for the same flavour at once, the scheduler will interleave them and depth reaches 2
    depth = h.sections[flavour]
    depth = depth + 1
    h.sections[flavour] = depth
    if depth > h.section_max[flavour]:
        h.section_max[flavour] = depth
    if depth > 1:
        h.ev("overlap", pid, flavour=flavour, depth=depth)
    for _ in range(n):
        depth = h.sections[flavour]
    h.sections[flavour] = h.sections[flavour] - 1


patches.monitor_function(_section)


CURRENT = {"h": None}


class _SvcBase:
    """Harness services. cobald registers a service unit in __new__, i.e. *before* __init__ has run;
    a service created in one thread can therefore be started by the accept loop (another thread)
    while it is still half constructed.  That is recorded as an event (judged by C13); the payload
    itself waits for its constructor so that exactly-once accounting stays meaningful."""

    def __init__(self, h, pid):
        self.h = h
        self.pid = pid
        self.init_done = True

    def _early(self):
        if not getattr(self, "init_done", False):
            h = CURRENT["h"]
            h.ev("service-run-before-init", None, cls=type(self).__name__)
            S.probe("service-run-before-init")
            return True
        return False


@service(flavour=threading)
class ThreadSvc(_SvcBase):
    def run(self):
        if self._early():
            while not getattr(self, "init_done", False):
                time.sleep(0)
        return self.h.run_sync(self.pid, (), {}, mode="service")


@service(flavour=asyncio)
class AioSvc(_SvcBase):
    async def run(self):
        if self._early():
            while not getattr(self, "init_done", False):
                await asyncio.sleep(0)
        return await self.h.run_async(self.pid, (), {}, asyncio.sleep, asyncio.CancelledError, mode="service")


@service(flavour=trio)
class TrioSvc(_SvcBase):
    async def run(self):
        if self._early():
            while not getattr(self, "init_done", False):
                await trio.sleep(0)
        return await self.h.run_async(self.pid, (), {}, trio.sleep, trio.Cancelled, mode="service")


# observation only: which unit of a service is being started - the one the instance carries, or one
# that a later decorator's __new__ wrapper has superseded (classes decorated twice, see below)
from cobald.daemon.runners.service import ServiceUnit as _ServiceUnit  # noqa: E402

_orig_unit_start = _ServiceUnit.start


def _observed_unit_start(self, *args, **kwargs):
    svc = self.service()
    h = CURRENT["h"]
    if svc is not None and h is not None and sum(1 for k in type(svc).__mro__ if k is not object and "__new__" in k.__dict__) > 1:
        # only instances of classes decorated more than once get several units; for those the started
        # unit is kept, and whether it still is the unit its service carries is looked at when the run
        # is judged.  Nothing is kept for other services: a reference would keep them from being collected
        h.started_units.append((svc, self))
    return _orig_unit_start(self, *args, **kwargs)


_ServiceUnit.start = _observed_unit_start


# unusual but legal ways of declaring a service: the flavour a class was decorated with last counts
@service(flavour=trio)
class TrioOverAioSvc(AioSvc):
    run = TrioSvc.run


@service(flavour=asyncio)
class AioOverTrioSvc(TrioSvc):
    run = AioSvc.run


@service(flavour=asyncio)
class AioOverAioSvc(AioSvc):
    pass


@service(flavour=trio)
class TrioOverTrioSvc(TrioSvc):
    pass


class SubThreadSvc(ThreadSvc):
    pass


class SubAioSvc(AioSvc):
    pass


class SubTrioSvc(TrioSvc):
    pass


class _NoChain:
    """A subclass whose constructor sets itself up without calling the constructor it inherits."""

    def __init__(self, h, pid):
        self.h = h
        self.pid = pid
        self.init_done = True


class NoChainThreadSvc(_NoChain, ThreadSvc):
    pass


class NoChainAioSvc(_NoChain, AioSvc):
    pass


class NoChainTrioSvc(_NoChain, TrioSvc):
    pass


class _Falsy:
    """A live service need not be truthy: a container-like service that is still empty, a gate that is shut."""

    def __bool__(self):
        return False


class _Empty:
    def __len__(self):
        return 0


class FalsyThreadSvc(_Falsy, ThreadSvc):
    pass


class FalsyAioSvc(_Falsy, AioSvc):
    pass


class FalsyTrioSvc(_Falsy, TrioSvc):
    pass


class EmptyThreadSvc(_Empty, ThreadSvc):
    pass


class EmptyAioSvc(_Empty, AioSvc):
    pass


class EmptyTrioSvc(_Empty, TrioSvc):
    pass


SERVICE_CLASSES = {
    ("threading", "falsy"): FalsyThreadSvc, ("asyncio", "falsy"): FalsyAioSvc, ("trio", "falsy"): FalsyTrioSvc,
    ("threading", "empty"): EmptyThreadSvc, ("asyncio", "empty"): EmptyAioSvc, ("trio", "empty"): EmptyTrioSvc,
    ("threading", "nochain"): NoChainThreadSvc, ("asyncio", "nochain"): NoChainAioSvc, ("trio", "nochain"): NoChainTrioSvc,
    ("threading", None): ThreadSvc, ("asyncio", None): AioSvc, ("trio", None): TrioSvc,
    ("threading", "subclass"): SubThreadSvc, ("asyncio", "subclass"): SubAioSvc, ("trio", "subclass"): SubTrioSvc,
    ("asyncio", "redecorated-same"): AioOverAioSvc, ("trio", "redecorated-same"): TrioOverTrioSvc,
    ("asyncio", "redecorated-other"): AioOverTrioSvc, ("trio", "redecorated-other"): TrioOverAioSvc,
}


def _exc_text(record):
    if not (record.exc_info and record.exc_info[1] is not None):
        return None
    import re
    import traceback

    def leaves(e, depth=0):
        if isinstance(e, BaseExceptionGroup) and depth < 6:
            return [x for sub in e.exceptions for x in leaves(sub, depth + 1)]
        tb = traceback.extract_tb(e.__traceback__)[-3:]
        return ["%s: %s @ %s" % (type(e).__name__, str(e)[:120], " < ".join("%s:%d:%s" % (f.filename.split("/")[-1], f.lineno, f.name) for f in reversed(tb)))]

    txt = " | ".join(leaves(record.exc_info[1]))
    return re.sub(r"0x[0-9a-fA-F]+", "0x?", txt)[:400]


class LogCapture(logging.Handler):
    def __init__(self, h):
        super().__init__(level=0)
        self.h = h

    def emit(self, record):
        if record.name.startswith("cobald"):
            self.h.log_records.append({"logger": record.name, "level": record.levelno, "msg": str(record.msg)[:80], "exc": record.exc_info[0].__name__ if record.exc_info and record.exc_info[0] else None, "exc_text": _exc_text(record), "t": round(S.now, 6)})
