"""C03 — every adopted payload and every service is started exactly once."""
import random
import time

from .sched import S
from .common import gen_stalls, base_knobs, FL

ARGS = [[], [], [0], [1, "x"], [None], [[1, 2]], [{"a": 1}], ["", 0.0, False], [["@tuple", 1, 2]], [3.5, [[]]], list(range(12)), [None, None]]
# names that look like parameters of the runtime's own functions are ordinary keyword arguments too
# ("self", "payload" and "flavour" are taken by adopt / execute themselves)
KWARGS = [{}, {}, {"k": 1}, {"flag": False, "name": ""}, {"payload_": "x", "args": [1]}, {"self_": None}, {"flavour_": "trio"},
          {"kwargs": {"a": 1}, "cls": None}, {"runner": 0, "loop": None, "target": "t", "daemon": True}, {"func": None, "keywords": {}}, {"timeout": 0, "value": None, "who": "x"}]


def gen(seed, tier):
    rng = random.Random(seed)
    knobs = base_knobs(rng, tier)
    knobs["stalls"] = gen_stalls(rng)
    ad = knobs["accept_delay"] = rng.choice([0.01, 0.1, 0.25, 0.5, 1.0])
    payloads = []
    scripts = [[["wait-running"]], [["wait-running"]]]
    race = rng.random() < (0.2 if tier == "quick" else 0.3)
    window = rng.random() < (0.15 if tier == "thorough" else 0.08)
    n = rng.randint(1, 9)
    for i in range(n):
        fl = rng.choice(FL)
        pid = "p%d" % i
        steps = rng.choice([[["block"]], [["hb", 0.5, None]], [["sleep", 0.3], ["return", "none"]], [["return", "none"]]])
        spec = {"id": pid, "flavour": fl, "steps": steps}
        via = rng.choice(["queued", "queued", "adopt-driver", "adopt-driver", "adopt-payload", "adopt-private-loop", "service-pre", "service-late-driver", "service-late-payload"])
        if via.startswith("service"):
            spec["drop_immediately"] = rng.random() < 0.2
            if rng.random() < 0.3:
                # declared in a less usual way: plain subclass of a service class (with or without chaining up in __init__), or a subclass
                # decorated again - with the same or another flavour (the last decoration counts)
                spec["svc_class"] = rng.choice(["subclass", "nochain", "redecorated-same", "redecorated-other", "falsy", "empty"])
        else:
            spec["args"] = rng.choice(ARGS)
            spec["kwargs"] = rng.choice(KWARGS)
            if rng.random() < 0.3:
                spec["callable"] = rng.choice(["partial", "partial-args", "method", "instance", "unhashable-instance", "module-none"] + (["lambda"] if fl != "threading" else []))
            if rng.random() < 0.12:
                # the same callable object adopted several times without arguments: that many payloads
                spec["args"], spec["kwargs"], spec["times"] = [], {}, rng.choice([2, 3, 5])
        if via == "queued":
            spec["via"] = "queued"
        elif via == "service-pre":
            spec["via"] = "service-pre"
        elif via in ("adopt-driver", "service-late-driver"):
            spec["via"] = "adopt" if via == "adopt-driver" else "service"
            d = rng.choice([0.0, 0.0, ad / 2, ad, 3 * ad + 0.5])
            scr = rng.choice(scripts)
            if d:
                scr.append(["sleep", d])
            scr.append(["adopt" if via == "adopt-driver" else "create-service", pid])
        elif via == "adopt-private-loop":
            # a thread payload running an asyncio loop of its own submits from inside that loop
            spec["via"] = "adopt"
            payloads.append({"id": "par%d" % i, "flavour": "threading", "via": "queued", "steps": [["sleep", rng.choice([0.0, 0.0, ad])], ["private-loop", [["adopt", pid], ["sleep", rng.choice([0.0, 0.3])]]], ["block"]], "helper": True})
        else:
            spec["via"] = "adopt" if via == "adopt-payload" else "service"
            op = "adopt" if via == "adopt-payload" else "create-service"
            payloads.append({"id": "par%d" % i, "flavour": rng.choice(FL), "via": rng.choice(["queued", "service-pre"]), "steps": [["sleep", rng.choice([0.0, 0.0, ad, 2 * ad])], [op, pid], ["block"]], "helper": True})
        payloads.append(spec)
    if rng.random() < 0.06:
        # population size is a knob too: several dozen long-running thread payloads / services at once -
        # each one is started, however many are running already
        nflood = rng.choice([36, 48])
        fvia = rng.choice(["adopt", "service"])
        for j in range(nflood):
            payloads.append({"id": "fl%d" % j, "flavour": "threading", "via": fvia, "steps": [["block"]], "args": [], "kwargs": {}} if fvia == "adopt" else {"id": "fl%d" % j, "flavour": "threading", "via": "service", "steps": [["block"]], "drop_immediately": False})
        scripts[1] += [x for j in range(nflood) for x in (["adopt" if fvia == "adopt" else "create-service", "fl%d" % j],)]
        knobs["step_cap"] = 600000
    if rng.random() < 0.25:
        # nested contexts: a coroutine payload executes (blocking) a payload of the other coroutine flavour,
        # which in turn adopts a payload - the adoption must not wait for the blocked caller's loop
        cfl = rng.choice(["asyncio", "trio"])
        ofl = "trio" if cfl == "asyncio" else "asyncio"
        payloads.append({"id": "nchild", "flavour": rng.choice([cfl, cfl, "threading"]), "via": "adopt", "steps": [["block"]], "args": rng.choice(ARGS), "kwargs": rng.choice(KWARGS)})
        payloads.append({"id": "nexec", "flavour": ofl, "via": "execute", "steps": [["adopt", "nchild"], ["return", "none"]], "helper": True})
        payloads.append({"id": "ncaller", "flavour": cfl, "via": "queued", "steps": [["sleep", rng.choice([0.0, ad])], ["execute", "nexec"], ["block"]], "helper": True})
    turn_t = 0.0
    if rng.random() < 0.1:
        # turnover: a service that has done its work is let go of and a new one is declared straight away,
        # between two polls of the accept loop - the population is the same size as before, the newcomer counts
        for j in range(rng.choice([1, 1, 2, 3])):
            fa, fb = rng.choice(FL), rng.choice(FL)
            payloads.append({"id": "to%da" % j, "flavour": fa, "via": "service", "steps": [["sleep", 0.2], ["return", "none"]], "drop_immediately": False})
            payloads.append({"id": "to%db" % j, "flavour": fb, "via": "service", "steps": rng.choice([[["block"]], [["hb", 0.5, None]]]), "drop_immediately": False})
            gap = 2 * ad + 0.5 + rng.choice([0.0, ad / 3, ad])
            turn_t += gap
            scripts[1] += [["create-service", "to%da" % j], ["sleep", gap], ["drop-ref", "to%da" % j]] + ([["gc"]] if rng.random() < 0.5 else []) + [["create-service", "to%db" % j]]
    if rng.random() < 0.3:
        scripts[1] += [["sleep", ad], ["gc"]]
    if rng.random() < 0.12:
        # a thread that walks the registry of service units (a WeakSet) is descheduled in the middle
        # of it until another thread has got some way through creating a service
        knobs["stalls"] = knobs["stalls"] + [{"func": "__iter__", "nth": rng.randint(2, 8), "dur": 2.0, "until": "__new_service__", "k": rng.randint(2, 6)}]
    settle = 4 * ad + 3 * ad + 1.5 + turn_t + sum(st["dur"] for st in knobs["stalls"])  # injected stalls delay starts legitimately
    if window:
        # submissions inside the launch window: between accept() being called and `running` being set
        scripts[0][0] = ["wait-marker", "accept-call"]
        if rng.random() < 0.5:
            # ... with the submitting thread descheduled inside the registration until the
            # event loop thread has got some way through launching / flushing the queue
            knobs["stalls"] = knobs["stalls"] + [
                {"func": rng.choice(["register_payload", "register_payload", "adopt"]), "not_main": True, "nth": rng.randint(1, 6), "dur": 1.0,
                 "until": rng.choice(["_launch_runners", "_manage_runners", "_unqueue_payloads"]), "k": rng.randint(1, 8)}
            ]
    if race:
        # submissions racing with a termination of any kind; a trio payload with shielded cleanup keeps the
        # runtime "finishing its payloads' cleanup" for a while so that late adopts fall into that phase
        how = rng.choice(["shutdown", "shutdown", "sigint", "fail"])
        payloads.append({"id": "linger", "flavour": "trio", "via": "queued", "steps": [["block"]], "cleanup_async": rng.choice([0.3, 1.0]), "helper": True})
        scripts[1] += [["sleep", rng.choice([0.0, ad / 2, ad, 0.3])]]
        if how == "fail":
            payloads.append({"id": "boom", "flavour": rng.choice(FL), "via": "adopt", "steps": [["raise", "LookupError"]], "helper": True, "trigger": True})
            scripts[1] += [["adopt", "boom"]]
        else:
            scripts[1] += [[how]]
        # a third thread keeps adopting while the runtime goes down
        lscript = [["wait-marker", {"shutdown": "shutdown-call", "sigint": "sigint-sent", "fail": "raise:boom"}[how]]]
        for i in range(rng.randint(1, 4)):
            pid = "late%d" % i
            payloads.append({"id": pid, "flavour": rng.choice(FL), "via": "adopt", "steps": [["block"]], "args": rng.choice(ARGS), "kwargs": rng.choice(KWARGS), "late": True})
            lscript += [["sleep", rng.choice([0.0, 0.01, 0.05, 0.2])], ["adopt", pid]]
        scripts.append(lscript)
        scripts[0] += [["sleep", settle + 2.0]]
    else:
        scripts[0] += [["sleep", settle], ["mark", "quiescent"], ["shutdown"]]
    knobs["horizon"] = 40.0
    rng.shuffle(payloads)
    return {"prop": "C03", "seed": seed, "knobs": knobs, "payloads": payloads, "drivers": [{"id": "d%d" % i, "script": sc_} for i, sc_ in enumerate(scripts)], "race": race, "window": window, "grace": 0.5}


COROUTINE_ACTIVITY = ("start", "step", "hb", "cancelled", "cleanup-step", "cleanup-async-done", "finished")


def main(h):
    r = h.new_runner()
    h.pre_start(r)
    h.start_drivers()
    h.run_accept(r)
    time.sleep(h.sc.get("grace", 0.5))


def check(h, reason):
    v = []

    def V(key, msg):
        if not any(x["key"] == key for x in v):
            v.append({"key": key, "msg": msg})

    ev = h.events
    specs = h.specs
    window = h.sc.get("window")
    ended = next((e for e in ev if e["kind"] == "accept-ended"), None)
    end_seq = ended["seq"] if ended else 10**12
    stop = next((e for e in ev if e["kind"] in ("shutdown-call", "stop-call", "sigint-sent") or (e["kind"] == "raise" and e.get("pid") == "boom")), None)
    stop_seq = stop["seq"] if stop else 10**12
    quiescent = next((e for e in ev if e["kind"] == "mark:quiescent"), None)
    q_seq = quiescent["seq"] if quiescent else None
    running_seen = next((e for e in ev if e["kind"] == "saw-running"), None)
    if ended is not None and end_seq < stop_seq and not h.started_units_tainted():
        # nobody stopped the runtime and no payload of these scenarios fails: if the run call ended
        # all the same, whatever was or will be handed to it afterwards is lost
        V("C03/run-ended-by-itself/%s" % (ended.get("type") or "returned"), "the run call ended (%s %s, causes %r) at t=%.3f although nothing had failed and nobody had stopped it: payloads and services can no longer be started" % (ended["how"], ended.get("type"), ended.get("cause_types"), ended["t"]))
    starts = {}
    for e in ev:
        if e["kind"] == "start" and e.get("mode") in ("background", "service"):
            starts.setdefault(e["pid"], []).append(e)
    tag = "window" if window else ("race" if h.sc.get("race") else "steady")
    shape = ["C03", tag, sorted((specs[p]["flavour"], specs[p].get("via"), len(specs[p].get("args", [])), len(specs[p].get("kwargs", {}))) for p in specs if not specs[p].get("helper")), ended["how"] if ended else None]
    # 1. adopt calls: return None, never raise (before the end of the run call)
    calls = {}
    ncalls = {}
    for e in ev:
        if e["kind"] == "adopt-call":
            calls[e["pid"]] = {"call": e}  # judged on the last call of a pid (multi-adopts are back to back)
            ncalls[e["pid"]] = ncalls.get(e["pid"], 0) + 1
        elif e["kind"] in ("adopt-returned", "adopt-raised") and e["pid"] in calls:
            calls[e["pid"]]["done"] = e
    for pid, c in sorted(calls.items()):
        fl = specs[pid]["flavour"]
        by = c["call"]["by"]
        byfl = specs[by]["flavour"] if by in specs else ("main" if by == "main" else "thread")
        d = c.get("done")
        at = (d or c["call"])["seq"]  # judged at the instant the call came back
        phase = "before-start" if by == "main" else ("window" if (window and (running_seen is None or c["call"]["seq"] < running_seen["seq"])) else ("stopping" if at > stop_seq else "running"))
        if d is None:
            if c["call"]["seq"] < end_seq and (q_seq is not None and c["call"]["seq"] < q_seq or reason in ("horizon", "deadlock")) and phase != "stopping":
                V("C03/adopt-blocked/%s/by-%s/%s" % (fl, byfl, phase), "adopt of %s payload %s by %s (%s) had not returned (end of run: %s)" % (fl, pid, by, phase, reason))
            continue
        if d["kind"] == "adopt-raised":
            if d["seq"] > end_seq:
                continue  # after the run call ended nothing is required
            if phase == "stopping" and not any(d["seq"] < e["seq"] < end_seq and e.get("pid") in specs and specs[e["pid"]]["flavour"] != "threading" and e["kind"] in COROUTINE_ACTIVITY for e in ev):
                # the statement protects adopt "while the runtime is finishing its payloads' cleanup";
                # once no coroutine payload does anything any more, a refusal is not ruled out
                S.probe("adopt-raised-after-cleanup:" + d["exc"])
                continue
            if True:
                V("C03/adopt-raised/%s/%s/by-%s/%s" % (fl, d["exc"], byfl, phase), "adopt of %s payload %s by %s raised %s: %s (phase: %s)" % (fl, pid, by, d["exc"], d.get("text"), phase))
        elif d.get("value") is not None:
            V("C03/adopt-returned-value/%s" % fl, "adopt of %s returned %r" % (pid, d.get("value")))
    # 1b. a service class decorated a second time (a decorated subclass of a service class) creates a
    #     unit in each decorator's __new__ wrapper; the earlier one is superseded a few lines later.  If
    #     the accept loop snapshots the registry in between it starts that unit too: a known finding of
    #     its own (registration in __new__), kept apart from the clauses below.  Without a start in the
    #     requested flavour nothing is set aside.
    tainted = h.started_units_tainted()
    for pid in tainted:
        kind = specs.get(pid, {}).get("svc_class") or "?"
        V("C03/superseded-unit-started/%s" % kind, "service %s of a class decorated twice (%s, requested flavour %s): the unit registered by the base class's decorator was picked up by the accept loop before it was superseded and was started as well; starts %r" % (pid, kind, specs.get(pid, {}).get("flavour"), [x["ctx"] for x in starts.get(pid, [])]))
    if tainted:
        # run() of that instance was started a second time / in the base class's runner, which may
        # well have brought the runtime down: nothing further is attributed in this run
        return v, ["C03-superseded"], True
    # 2. never duplicated, anywhere in the run
    for pid, ss in sorted(starts.items()):
        allowed = max(1, ncalls.get(pid, 1)) if specs[pid].get("times") else 1
        if len(ss) > allowed:
            V("C03/duplicate-start/%s/%s" % (specs[pid]["flavour"], specs[pid].get("via")), "%s payload %s (via %s, handed to adopt %d time(s)) was started %d times (seq %s)" % (specs[pid]["flavour"], pid, specs[pid].get("via"), allowed, len(ss), [s["seq"] for s in ss]))
    # 3. flavour context and arguments of every start
    loops = {s["ctx"]["loop"] for ss in starts.values() for s in ss if specs[s["pid"]]["flavour"] == "asyncio"}
    trios = {s["ctx"]["trio"] for ss in starts.values() for s in ss if specs[s["pid"]]["flavour"] == "trio"}
    aio_sids = {s["ctx"]["sid"] for ss in starts.values() for s in ss if specs[s["pid"]]["flavour"] == "asyncio"}
    trio_sids = {s["ctx"]["sid"] for ss in starts.values() for s in ss if specs[s["pid"]]["flavour"] == "trio"}
    thread_sids = [s["ctx"]["sid"] for ss in starts.values() for s in ss if specs[s["pid"]]["flavour"] == "threading"]
    for pid, ss in sorted(starts.items()):
        fl = specs[pid]["flavour"]
        for s in ss:
            ctx = s["ctx"]
            if not s.get("args_ok"):
                V("C03/wrong-arguments/%s/%s" % (fl, specs[pid].get("via")), "%s payload %s received args=%r kwargs=%r, supplied args=%r kwargs=%r" % (fl, pid, s["args"], s["kwargs"], specs[pid].get("args", []), specs[pid].get("kwargs", {})))
            if fl == "asyncio" and (ctx["loop"] is None or ctx["trio"] is not None or ctx["sid"] != h.accept_sid):
                V("C03/wrong-flavour/asyncio", "asyncio payload %s started in context %r (accept runs on sim thread %s)" % (pid, ctx, h.accept_sid))
            if fl == "trio" and (ctx["trio"] is None or ctx["loop"] is not None):
                V("C03/wrong-flavour/trio", "trio payload %s started in context %r" % (pid, ctx))
            if fl == "threading" and (ctx["trio"] is not None or ctx["loop"] is not None or ctx["sid"] in aio_sids or ctx["sid"] in trio_sids or ctx["sid"] == h.accept_sid or (thread_sids.count(ctx["sid"]) > 1 and not specs[pid].get("times"))):
                V("C03/wrong-flavour/threading", "thread payload %s started in context %r (loop threads: %r %r)" % (pid, ctx, sorted(aio_sids), sorted(trio_sids)))
    if len(loops) > 1 or len(aio_sids) > 1:
        V("C03/wrong-flavour/asyncio-many-loops", "asyncio payloads ran in loops %r on threads %r" % (sorted(map(str, loops)), sorted(aio_sids)))
    if len(trios) > 1 or len(trio_sids) > 1:
        V("C03/wrong-flavour/trio-many-runs", "trio payloads ran under tokens %r on threads %r" % (sorted(map(str, trios)), sorted(trio_sids)))
    # 4. none lost: judged at quiescence, before the harness stops the runtime
    nontrivial = False
    if q_seq is not None and (ended is None or end_seq > q_seq):
        nontrivial = True
        for pid, spec in sorted(specs.items()):
            if spec.get("helper"):
                continue
            via = spec.get("via")
            n = len([s for s in starts.get(pid, []) if s["seq"] < q_seq])
            fl = spec["flavour"]
            if via in ("queued", "adopt"):
                c = calls.get(pid)
                if c is None or c.get("done") is None or c["done"]["kind"] != "adopt-returned" or c["done"]["seq"] > q_seq or c["done"]["t"] + 0.5 + S.stall_total > quiescent["t"]:
                    continue  # never submitted (its submitter did not get there) or reported above
                by = c["call"]["by"]
                byfl = specs[by]["flavour"] if by in specs else ("main" if by == "main" else "thread")
                phase = "window" if (window and by != "main" and (running_seen is None or c["call"]["seq"] < running_seen["seq"])) else "steady"
                want = ncalls.get(pid, 1) if spec.get("times") else 1
                if n < want:
                    V("C03/lost/%s/%s/by-%s/%s%s" % (fl, via, byfl, phase, "/same-callable" if want > 1 else ""), "%s payload %s (via %s, handed to adopt %d time(s) by %s, last at seq %d, adopt returned) was started %d time(s) before quiescence (seq %d)" % (fl, pid, via, want, by, c["call"]["seq"], n, q_seq))
            else:
                created = next((e for e in ev if e["kind"] == "service-created" and e["pid"] == pid and e["seq"] < q_seq), None)
                if created is None or created["t"] + 3 * h.knobs.get("accept_delay", 0.25) + 0.5 + S.stall_total > quiescent["t"]:
                    continue  # fewer than three polling cycles before the quiescence mark
                dropped = spec.get("drop_immediately") or any(e["kind"] == "drop-ref" and e["pid"] == pid and e["seq"] < q_seq for e in ev)
                if n == 0 and not dropped:
                    V("C03/lost/%s/%s" % (fl, via), "live %s service %s (created at seq %d in thread %s) was never started before quiescence (seq %d)" % (fl, pid, created["seq"], created["sid"], q_seq))
    elif h.sc.get("race"):
        nontrivial = any(c["call"]["seq"] > stop_seq for c in calls.values())
        S.probe("adopt-during-stop", sum(1 for c in calls.values() if stop_seq < c["call"]["seq"] < end_seq))
    if ended is None and reason in ("horizon", "deadlock"):
        V("C03/run-never-ended", "run call did not end after shutdown (%s)" % reason)
    return v, shape, nontrivial
