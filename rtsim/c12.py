"""C12 — runtime lifecycle: exclusive accept, shutdown always completes, restart possible."""
import random
import threading
import time

from .sched import S
from .common import gen_stalls, gen_slow_starts, base_knobs, liveness_bound, FL


def poll_instants(ad, n=14):
    out, t, d = [], 0.0, 0.0
    for _ in range(n):
        out.append(round(t, 6))
        t += d
        d = min(d + ad / 10, ad)
    return out


def gen(seed, tier):
    rng = random.Random(seed)
    knobs = base_knobs(rng, tier)
    knobs["stalls"] = gen_stalls(rng)
    knobs["slow_starts"] = gen_slow_starts(rng)
    ad = knobs["accept_delay"] = rng.choice([0.01, 0.1, 0.25, 1.0])
    if rng.random() < 0.12:
        # family: several runners call accept() at (almost) the same instant - exactly one of them
        # becomes the active runner, every other call is rejected; nobody waits for its turn
        n = rng.choice([2, 2, 3, 4])
        knobs["strategy"] = rng.choice([{"kind": "random", "p": 0.2}, {"kind": "random", "p": 0.5}, {"kind": "pct", "d": 2, "len": 400}, knobs["strategy"]])
        knobs["horizon"] = 60.0
        contest = {"n": n, "delays": [rng.choice([0.0, 0.0, 0.0, 1e-4, 1e-3]) for _ in range(n)], "hold": 1.5 + 3 * ad + sum(st["dur"] for st in knobs["stalls"]), "rounds": n}
        return {"prop": "C12", "seed": seed, "knobs": knobs, "payloads": [], "phases": [], "contest": contest, "grace": 0.5}
    nphases = rng.choice([1, 2, 2, 3, 3, 4])
    payloads, phases = [], []
    polls = poll_instants(ad)
    for ph in range(nphases):
        pop = rng.choice(["none", "sleeping", "blocked-threads", "mixed", "adopting"])
        ids = []
        k = 0 if pop == "none" else rng.randint(1, 4)
        for i in range(k):
            pid = "p%d_%d" % (ph, i)
            if pop == "sleeping":
                fl = rng.choice(["asyncio", "trio"])
            elif pop == "blocked-threads":
                fl = "threading"
            else:
                fl = rng.choice(FL)
            steps = [["block"]] if fl == "threading" else rng.choice([[["hb", 0.25, None]], [["block"]], [["block"]], [["swallow", rng.choice([1, 2])]]])
            spec = {"id": pid, "flavour": fl, "phase": ph, "steps": steps, "via": rng.choice(["queued", "service-pre"]) if pop != "adopting" else "adopt"}
            if fl == "trio" and rng.random() < 0.3:
                spec["cleanup_async"] = rng.choice([0.1, 0.5])
            payloads.append(spec)
            ids.append(pid)
        if rng.random() < 0.12:
            # an asyncio payload whose clean-up fails while it is being cancelled: the runtime is going
            # down anyway, accept() still returns normally
            payloads.append({"id": "cr%d" % ph, "flavour": "asyncio", "phase": ph, "steps": [["block"]], "via": rng.choice(["queued", "adopt"]) if pop == "adopting" else "queued", "cleanup_raise": rng.choice(["OSError", "LookupError"])})
            if payloads[-1]["via"] == "adopt":
                ids.append("cr%d" % ph)
        hbid = "hb%d" % ph
        payloads.append({"id": hbid, "flavour": rng.choice(["asyncio", "trio"]), "phase": ph, "via": "queued", "steps": [["hb", 0.25, None]], "hb": True})
        script = [["wait-running"]]
        second = rng.random() < 0.5
        if second:
            script += [["sleep", rng.choice([0.0, 0.0, 0.3])], ["accept-second"]]
            for _ in range(rng.choice([0, 0, 1, 2])):
                # further attempts while the first runner is still active: each has to be rejected as well
                script += [["sleep", rng.choice([0.0, 0.1])], ["accept-second"]]
            script += [["sleep", 0.6], ["adopt", "late%d" % ph], ["sleep", 0.3]]
            payloads.append({"id": "late%d" % ph, "flavour": rng.choice(FL), "phase": ph, "via": "adopt", "steps": [["block"]], "late": True})
        tsd = rng.choice(polls + [p + 1e-3 for p in polls[:6]] + [max(0.0, p - 1e-3) for p in polls[:6]] + [0.0, 0.0, 0.5, 2.0])
        if not second and tsd:
            script.append(["sleep", tsd])
        adopters = []
        if pop == "adopting":
            # adoptions in flight while the stop arrives: a second thread submits them around the same time
            adopters = [{"id": "a%d" % ph, "script": [["wait-running"]] + ([["sleep", tsd]] if (tsd and not second) else []) + [x for pid in ids for x in (["adopt", pid], ["sleep", rng.choice([0.0, 0.0, 0.01])])]}]
        if rng.random() < 0.12:
            # a thread that keeps handing coroutine payloads to the runner for a while, straight through the stop
            nfl = rng.choice([20, 40])
            for j in range(nfl):
                payloads.append({"id": "af%d_%d" % (ph, j), "flavour": rng.choice(["asyncio", "asyncio", "trio"]), "phase": ph, "via": "adopt", "steps": [["block"]], "late": True})
            gap = rng.choice([0.02, 0.05])
            adopters.append({"id": "f%d" % ph, "script": [["wait-running"]] + ([["sleep", max(0.0, tsd - 0.2)]] if (tsd and not second) else []) + [x for j in range(nfl) for x in (["adopt", "af%d_%d" % (ph, j)], ["sleep", gap])]})
        if rng.random() < 0.12:
            # services being created by another thread right when the stop arrives
            nsv = rng.choice([2, 4, 8])
            for j in range(nsv):
                payloads.append({"id": "sv%d_%d" % (ph, j), "flavour": rng.choice(FL), "phase": ph, "via": "service", "steps": [["block"]], "late": True})
            adopters.append({"id": "c%d" % ph, "script": [["wait-marker", "mark:trigger%d" % ph]] + [x for j in range(nsv) for x in (["create-service", "sv%d_%d" % (ph, j)], ["sleep", rng.choice([0.0, 0.0, 0.001, 0.01])])]})
        end = rng.choice(["shutdown", "shutdown", "shutdown-payload", "shutdown-payload", "sigint", "fail", "fail-then-shutdown", "sigint-then-shutdown", "shutdown-twice"])
        script.append(["mark", "trigger%d" % ph])
        if end == "shutdown":
            script.append(["shutdown"])
        elif end == "sigint":
            script.append(["sigint"])
        elif end == "sigint-then-shutdown":
            # a stop request while the interrupt is being handled: accept() still returns normally
            script += [["sigint"], ["sleep", rng.choice([0.0, 0.001, 0.01, 0.05, 0.15])], ["shutdown"]]
        elif end == "shutdown-twice":
            script += [["shutdown"], ["sleep", rng.choice([0.0, 0.001, 0.05, 0.5])], ["shutdown"]]
        elif end == "shutdown-payload":
            sfl = rng.choice(["threading", "threading", "asyncio", "trio"])
            # from a thread payload directly, or from a coroutine payload through a worker thread of its framework
            payloads.append({"id": "sd%d" % ph, "flavour": sfl, "phase": ph, "via": "adopt", "steps": [["shutdown"]] if sfl == "threading" else [["shutdown-in-thread"], ["block"]]})
            script.append(["adopt", "sd%d" % ph])
        else:
            payloads.append({"id": "fail%d" % ph, "flavour": rng.choice(FL), "phase": ph, "via": "adopt", "steps": [rng.choice([["raise", "LookupError"], ["return", "0"]])], "fails": True})
            script.append(["adopt", "fail%d" % ph])
            if end == "fail-then-shutdown":
                script += [["sleep", rng.choice([0.0, 0.01])], ["shutdown"]]
        phases.append({"driver": {"id": "d%d" % ph, "script": script}, "adopters": adopters, "end": end, "second": second, "pop": pop, "gap": rng.choice([0.0, 0.0, 0.2, 1.0])})
    knobs["horizon"] = 25.0 * nphases
    return {"prop": "C12", "seed": seed, "knobs": knobs, "payloads": payloads, "phases": phases, "grace": 0.5}


def main_contest(h):
    c = h.sc["contest"]
    runners = [h.new_runner() for _ in range(c["n"])]

    def contend(i):
        if c["delays"][i]:
            time.sleep(c["delays"][i])
        h.ev("contest-call", runner=i)
        S.count_fault("concurrent-accept")
        try:
            runners[i].accept()
        except BaseException as err:
            h.ev("contest-ended", runner=i, how="raised", type=type(err).__name__, has_cause=err.__cause__ is not None, text=str(err)[:80])
        else:
            h.ev("contest-ended", runner=i, how="returned")

    def supervise():
        for rnd in range(c["rounds"]):
            time.sleep(c["hold"])
            up = [i for i, r in enumerate(runners) if r.running.is_set()]
            h.ev("contest-snapshot", round=rnd, running=up)
            for i in up:
                h.ev("shutdown-call", "sup", by="sup", runner=i)
                try:
                    runners[i].shutdown()
                except BaseException as err:
                    h.ev("shutdown-raised", "sup", by="sup", exc=type(err).__name__, text=str(err)[:80])
                else:
                    h.ev("shutdown-returned", "sup", by="sup")
        h.ev("driver-done", "sup")

    threads = [threading.Thread(target=contend, args=(i,), daemon=True, name="driver-contender%d" % i) for i in range(1, c["n"])]
    threads.append(threading.Thread(target=supervise, daemon=True, name="driver-sup"))
    for t in threads:
        t._target_name = "driver"
        t.start()
    contend(0)
    time.sleep(c["hold"] * c["rounds"] + 1.0)


def check_contest(h, reason):
    v = []

    def V(key, msg):
        if not any(x["key"] == key for x in v):
            v.append({"key": key, "msg": msg})

    ev = h.events
    c = h.sc["contest"]
    n = c["n"]
    shape = ["C12-contest", n, c["delays"]]
    snaps = [e for e in ev if e["kind"] == "contest-snapshot"]
    calls = [e for e in ev if e["kind"] == "contest-call"]
    if len(calls) < n or not snaps:
        return v, shape, False
    s0 = snaps[0]
    ended0 = {e["runner"]: e for e in ev if e["kind"] == "contest-ended" and e["seq"] < s0["seq"]}
    if len(s0["running"]) > 1:
        V("C12/contest/several-running", "%d runners were accepting at the same time: %r" % (len(s0["running"]), s0["running"]))
    if not s0["running"]:
        V("C12/contest/none-running", "%d concurrent accept() calls, none was running %.2fs later; outcomes %r" % (n, c["hold"], {k: (e["how"], e.get("type")) for k, e in ended0.items()}))
    for i in range(n):
        if i in s0["running"]:
            continue
        e = ended0.get(i)
        if e is None:
            V("C12/contest/not-rejected", "accept() of runner %d, called while runner %r was accepting, had neither been rejected nor started %.2fs later: it waits for its turn" % (i, s0["running"], c["hold"]))
        elif e["how"] != "raised" or e.get("type") != "RuntimeError" or e.get("has_cause"):
            V("C12/contest/wrong-outcome/%s" % (e.get("type") or "returned"), "concurrent accept() of runner %d: %s %s (%s)" % (i, e["how"], e.get("type"), e.get("text")))
    # the winner was shut down at the snapshot: it returns normally, and nobody takes over afterwards
    allended = {e["runner"]: e for e in ev if e["kind"] == "contest-ended"}
    for i in s0["running"][:1]:
        e = allended.get(i)
        if e is None:
            V("C12/contest/winner-hangs", "runner %d was shut down at t=%.3f but its accept() had not ended (%s)" % (i, s0["t"], reason))
        elif e["how"] != "returned":
            V("C12/contest/winner-raised/%s" % e.get("type"), "after shutdown() the winner's accept() raised %s (%s)" % (e.get("type"), e.get("text")))
    for sn in snaps[1:]:
        if sn["running"]:
            V("C12/contest/took-over-later", "runner(s) %r started accepting %.2fs after the concurrent calls, once the active runner had been shut down" % (sn["running"], sn["t"] - calls[0]["t"]))
            break
    for e in ev:
        if e["kind"] == "shutdown-raised" and e.get("by") == "sup":
            V("C12/shutdown-raised/contest/%s" % e.get("exc"), "shutdown() raised %s: %s" % (e.get("exc"), e.get("text")))
    return v, shape, True


def main(h):
    if h.sc.get("contest"):
        return main_contest(h)
    for i, ph in enumerate(h.sc["phases"]):
        r = h.new_runner()
        h.ev("phase", phase=i)
        h.pre_start(r, phase=i)
        h.start_drivers([ph["driver"]] + ph.get("adopters", []))
        h.run_accept(r)
        time.sleep(ph.get("gap", 0.0))
    time.sleep(h.sc.get("grace", 0.5))


def check(h, reason):
    if h.sc.get("contest"):
        return check_contest(h, reason)
    v = []

    def V(key, msg):
        if not any(x["key"] == key for x in v):
            v.append({"key": key, "msg": msg})

    ev = h.events
    specs = h.specs
    phases = h.sc["phases"]
    bound = liveness_bound(h)
    starts = [e for e in ev if e["kind"] == "phase"]
    shape = ["C12", [(p["end"], p["second"], p["pop"]) for p in phases]]
    reached = 0
    for i, ph in enumerate(phases):
        lo = next((e["seq"] for e in starts if e["phase"] == i), None)
        if lo is None:
            break  # an earlier phase never ended; reported there
        hi = next((e["seq"] for e in starts if e["phase"] == i + 1), 10**12)
        pe = [e for e in ev if lo <= e["seq"] < hi]
        end = ph["end"]
        called = next((e for e in pe if e["kind"] == "accept-call"), None)
        ended = next((e for e in pe if e["kind"] == "accept-ended"), None)
        saw = next((e for e in pe if e["kind"] == "saw-running" and e["pid"] == "d%d" % i), None)
        trig = next((e for e in pe if e["kind"] == "mark:trigger%d" % i), None)
        prev_end = phases[i - 1]["end"] if i else "first"
        # restart possible: the guard was released on the previous exit path
        if ended is not None and ended["how"] == "raised" and ended.get("type") == "RuntimeError" and not ended.get("cause_types") and saw is None:
            V("C12/guard-leaked/after-%s" % prev_end, "accept() of runner %d was rejected right away (RuntimeError without cause) although the previous accept had ended by '%s'" % (i, prev_end))
            break
        if saw is None:
            if ended is None and reason in ("horizon", "deadlock", "step-cap"):
                V("C12/never-running/after-%s" % prev_end, "runner %d never reported running (%s)" % (i, reason))
            elif ended is not None:
                V("C12/ended-before-running/after-%s" % prev_end, "accept() of runner %d ended (%s %s) before it reported running" % (i, ended["how"], ended.get("type")))
            break
        reached += 1
        # exclusive accept
        if ph["second"]:
            attempts = [e for e in pe if e["kind"] == "second-accept-call"]
            outcomes = [e for e in pe if e["kind"] in ("second-accept-raised", "second-accept-returned")]
            sc_ = attempts[0] if attempts else None
            sr = outcomes[0] if outcomes else None
            if sc_ is not None:
                if len(outcomes) < len(attempts):
                    V("C12/second-accept-not-rejected/attempt-%d" % (len(outcomes) + 1), "concurrent accept() number %d of another runner was still running at the end (%s) instead of raising RuntimeError" % (len(outcomes) + 1, reason))
                    break
                for n_, o in enumerate(outcomes[1:], 2):
                    if o["kind"] == "second-accept-returned" or o.get("exc") != "RuntimeError":
                        V("C12/second-accept-wrong-outcome/%s" % o.get("exc", "returned"), "concurrent accept() number %d: %s %s" % (n_, o["kind"], o.get("exc")))
                sr = outcomes[-1] if outcomes else None
                if sr["kind"] == "second-accept-returned" or sr.get("exc") != "RuntimeError":
                    V("C12/second-accept-wrong-outcome/%s" % sr.get("exc", "returned"), "concurrent accept(): %s %s" % (sr["kind"], sr.get("exc")))
                t_seq = trig["seq"] if trig else hi
                dist = next((e for e in pe if e["kind"] == "cancelled" and sc_["seq"] < e["seq"] < t_seq), None)
                if dist is not None:
                    V("C12/second-accept-disturbed/cancelled", "payload %s of the active runner was cancelled after the rejected concurrent accept" % dist["pid"])
                if ended is not None and ended["seq"] < t_seq:
                    V("C12/second-accept-disturbed/ended", "the active runner's accept() ended (%s) after the rejected concurrent accept, before anyone stopped it" % ended["how"])
                if trig is not None:
                    hb = [e for e in pe if e["kind"] == "hb" and e["pid"] == "hb%d" % i and sr["seq"] < e["seq"] < trig["seq"]]
                    if not hb and S.stall_total == 0:  # an injected stall of the loop thread silences heartbeats legitimately
                        V("C12/second-accept-disturbed/heartbeat", "heartbeat payload of the active runner stopped ticking after the rejected concurrent accept")
                    late = [e for e in pe if e["kind"] == "start" and e["pid"] == "late%d" % i and e["seq"] < trig["seq"]]
                    lret = [e for e in pe if e["kind"] == "adopt-returned" and e["pid"] == "late%d" % i]
                    if lret and not late and S.stall_total == 0:
                        V("C12/second-accept-disturbed/adopt", "a payload adopted by the active runner after the rejected concurrent accept never started")
        if trig is None:
            break
        # how the phase ended
        # only stops aimed at *this* runner: a driver of the previous phase may still be on its way to a
        # shutdown() of the runner that has already ended (harmless, and not this runner's business)
        def mine(e):
            if e["kind"] == "shutdown-call":
                return e.get("runner") == i
            if e["kind"] == "sigint-sent":
                return e.get("pid") == "d%d" % i
            return e["kind"] in ("raise", "return") and specs.get(e.get("pid"), {}).get("fails") and specs[e["pid"]].get("phase") == i

        first_stop = next((e for e in pe if mine(e)), None)
        if first_stop is None:
            continue
        failed = any(e["kind"] in ("raise", "return") and mine(e) for e in pe)
        if ended is None:
            if S.now - first_stop["t"] > bound or reason == "deadlock":
                pops = "%s/%s" % (end, ph["pop"])
                V("C12/accept-hangs/%s" % pops, "runner %d: %s at t=%.3f but accept() had not ended %.2fs later (%s)" % (i, first_stop["kind"], first_stop["t"], S.now - first_stop["t"], reason))
            break
        if ended["t"] - first_stop["t"] > bound:
            V("C12/accept-late/%s" % end, "runner %d: accept() ended %.2fs after %s (bound %.2f)" % (i, ended["t"] - first_stop["t"], first_stop["kind"], bound))
        if not failed and ended["how"] != "returned":
            V("C12/accept-raised/%s/%s" % (end, ended.get("type")), "runner %d: after %s accept() raised %s (cause %r) instead of returning normally" % (i, end, ended.get("type"), ended.get("cause_types")))
        for sc_ in [e for e in pe if e["kind"] == "shutdown-call" and mine(e)]:
            done = next((e for e in ev if e["kind"] in ("shutdown-returned", "shutdown-raised") and e["seq"] > sc_["seq"] and e.get("by") == sc_.get("by")), None)
            if done is None:
                if S.now - sc_["t"] > bound or reason == "deadlock":
                    V("C12/shutdown-hangs/%s/%s" % (end, ph["pop"]), "runner %d: shutdown() called by %s at t=%.3f never returned (%s)" % (i, sc_.get("by"), sc_["t"], reason))
            elif done["kind"] == "shutdown-raised":  # also next to a failure: shutdown() returns, it does not raise
                V("C12/shutdown-raised/%s/%s" % (end, done.get("exc")), "runner %d: shutdown() raised %s: %s" % (i, done.get("exc"), done.get("text")))
            elif done["t"] - sc_["t"] > bound:
                V("C12/shutdown-late/%s" % end, "shutdown() took %.2fs" % (done["t"] - sc_["t"]))
    return v, shape, reached >= 1 and len(phases) >= 1
