"""Instrumented pipeline elements for C13 (registered as YAML tags through the harness
entry-point directory rtsim/plugins)."""
import asyncio
import threading
import time

import trio

from cobald.interfaces import Pool, PoolDecorator, Controller
from cobald.daemon import service

from .sched import S
from .harness import CURRENT, make_exception, make_value, Done


def _h():
    return CURRENT["h"]


def _loop_running():
    try:
        asyncio.get_running_loop()
        return True
    except RuntimeError:
        return False


class _Instr:
    """Shared behaviour: construction record, optional service body."""

    sim_kind = "?"
    sim_flavour = None

    # value objects: elements configured with the same "eqkey" compare equal and hash alike (think of
    # dataclasses with the same settings); they are still distinct objects, each with a service of its own
    def __eq__(self, other):
        k = getattr(self, "sim_eqkey", None)
        if k is not None and isinstance(other, _Instr):
            return k == getattr(other, "sim_eqkey", None)
        return self is other

    def __hash__(self):
        k = getattr(self, "sim_eqkey", None)
        return hash(("eq", k)) if k is not None else object.__hash__(self)

    def __len__(self):
        # container-like services (a pool of pending requests, of child pools ...) may well be empty,
        # i.e. falsy, right after construction
        return getattr(self, "sim_len", 1)

    def _sim_init(self, name, hb, fail_init, fail_after, fail_kind, park=False, empty=False, eqkey=None):
        if eqkey is not None:
            self.sim_eqkey = eqkey
        self.sim_len = 0 if empty else 1
        self.sim_park = park
        self.sim_name = name
        self.sim_hb = hb
        self.sim_fail_after = fail_after
        self.sim_fail_kind = fail_kind
        cur = S.current()
        _h().ev("constructed", name, cls=type(self).__name__, loop_running=_loop_running(), sid=cur.sid if cur else -1, flavour=self.sim_flavour)
        if fail_init:
            S.count_fault("constructor-raises")
            self.sim_init_failed = True
            import builtins

            exc_cls = getattr(builtins, fail_init, ValueError) if isinstance(fail_init, str) else ValueError
            raise exc_cls("constructor of %s fails as configured" % name)
        self.sim_init_done = True

    def __repr__(self):
        # like many real pools and controllers: built from what __init__ has set up
        return "<%s %s>" % (type(self).__name__, self.sim_name)

    def _sim_fail(self):
        kind = self.sim_fail_kind or "LookupError"
        h = _h()
        if kind.startswith("ret:"):
            val = make_value(kind[4:], self.sim_name)
            h.returned[self.sim_name] = val
            h.ev("return", self.sim_name, value=kind[4:])
            S.count_fault("service-return:" + kind[4:])
            raise Done(val)
        exc = make_exception(kind, self.sim_name)
        h.raised[self.sim_name] = exc
        h.ev("raise", self.sim_name, exc=kind)
        S.count_fault("service-raise:" + kind)
        raise exc

    def _early(self):
        if not getattr(self, "sim_init_done", False):
            _h().ev("service-run-before-init", None, cls=type(self).__name__)
            S.probe("service-run-before-init")
            return True
        return False

    def _sync_run(self):
        if self._early():
            while not getattr(self, "sim_init_done", False):
                if getattr(self, "sim_init_failed", False):
                    return None
                time.sleep(0.001)
        h = _h()
        h.ev("run-started", self.sim_name, ctx=h.context())
        t0 = S.now
        k = 0
        try:
            while True:
                if self.sim_fail_after is not None and S.now - t0 >= self.sim_fail_after - 1e-9:
                    self._sim_fail()
                h.ev("hb", self.sim_name, k=k)
                k += 1
                step = self.sim_hb
                if self.sim_fail_after is not None:
                    step = max(0.0, min(step, self.sim_fail_after - (S.now - t0)))
                time.sleep(step)
        except Done as d:
            return d.value

    async def _async_run(self, sleep, cancel_type):
        if self._early():
            while not getattr(self, "sim_init_done", False):
                if getattr(self, "sim_init_failed", False):
                    return None
                await sleep(0.001)
        h = _h()
        h.ev("run-started", self.sim_name, ctx=h.context())
        t0 = S.now
        k = 0
        try:
            if self.sim_park and self.sim_fail_after is None:
                # the "run until cancelled" idiom: wait on an awaitable only this coroutine references
                h.ev("hb", self.sim_name, k=0)
                if self.sim_flavour == "asyncio":
                    await asyncio.get_running_loop().create_future()
                else:
                    await trio.sleep_forever()
            while True:
                if self.sim_fail_after is not None and S.now - t0 >= self.sim_fail_after - 1e-9:
                    self._sim_fail()
                h.ev("hb", self.sim_name, k=k)
                k += 1
                step = self.sim_hb
                if self.sim_fail_after is not None:
                    step = max(0.0, min(step, self.sim_fail_after - (S.now - t0)))
                await sleep(step)
        except Done as d:
            return d.value
        except cancel_type as c:
            h.ev("cancelled", self.sim_name, exc=type(c).__name__)
            raise


class _PoolBase(Pool, _Instr):
    sim_kind = "pool"

    def __init__(self, name="pool", hb=0.5, fail_init=False, fail_after=None, fail_kind=None, park=False, empty=False, eqkey=None):
        self._demand = 0.0
        self._sim_init(name, hb, fail_init, fail_after, fail_kind, park, empty, eqkey)

    supply = 4.0
    utilisation = 0.75
    allocation = 0.75

    @property
    def demand(self):
        return self._demand

    @demand.setter
    def demand(self, value):
        self._demand = value
        _h().ev("pool-demand", self.sim_name, value=value if isinstance(value, (int, float)) else str(value))


class _DecoBase(PoolDecorator, _Instr):
    sim_kind = "decorator"

    def __init__(self, target, name="deco", hb=0.5, fail_init=False, fail_after=None, fail_kind=None, park=False, empty=False, eqkey=None):
        super().__init__(target)
        self._sim_init(name, hb, fail_init, fail_after, fail_kind, park, empty, eqkey)


class _CtrlBase(Controller, _Instr):
    sim_kind = "controller"

    def __init__(self, target, name="ctrl", hb=0.5, fail_init=False, fail_after=None, fail_kind=None, park=False, empty=False, eqkey=None):
        super().__init__(target)
        self._sim_init(name, hb, fail_init, fail_after, fail_kind, park, empty, eqkey)


def _variants(base, prefix):
    out = {}

    class Plain(base):
        pass

    Plain.__name__ = Plain.__qualname__ = prefix + "Plain"
    out["Plain"] = Plain

    class TrioV(base):
        sim_flavour = "trio"

        async def run(self):
            return await self._async_run(trio.sleep, trio.Cancelled)

    TrioV.__name__ = TrioV.__qualname__ = prefix + "Trio"
    out["Trio"] = service(flavour=trio)(TrioV)

    class AioV(base):
        sim_flavour = "asyncio"

        async def run(self):
            return await self._async_run(asyncio.sleep, asyncio.CancelledError)

    AioV.__name__ = AioV.__qualname__ = prefix + "Asyncio"
    out["Asyncio"] = service(flavour=asyncio)(AioV)

    class ThreadV(base):
        sim_flavour = "threading"

        def run(self):
            return self._sync_run()

    ThreadV.__name__ = ThreadV.__qualname__ = prefix + "Thread"
    out["Thread"] = service(flavour=threading)(ThreadV)

    class TwinV(base):
        """Value objects: all instances compare equal and hash alike - from the first moment on, the key
        is a class-level default (think of a dataclass with default settings)."""

        sim_flavour = "asyncio"
        sim_eqkey = "twin"

        async def run(self):
            return await self._async_run(asyncio.sleep, asyncio.CancelledError)

    TwinV.__name__ = TwinV.__qualname__ = prefix + "Twin"
    out["Twin"] = service(flavour=asyncio)(TwinV)
    return out


_p = _variants(_PoolBase, "SimPool")
SimPoolPlain, SimPoolTrio, SimPoolAsyncio, SimPoolThread, SimPoolTwin = _p["Plain"], _p["Trio"], _p["Asyncio"], _p["Thread"], _p["Twin"]
_d = _variants(_DecoBase, "SimDecorator")
SimDecoratorPlain, SimDecoratorTrio, SimDecoratorAsyncio, SimDecoratorThread, SimDecoratorTwin = _d["Plain"], _d["Trio"], _d["Asyncio"], _d["Thread"], _d["Twin"]
_c = _variants(_CtrlBase, "SimController")
SimControllerPlain, SimControllerTrio, SimControllerAsyncio, SimControllerThread, SimControllerTwin = _c["Plain"], _c["Trio"], _c["Asyncio"], _c["Thread"], _c["Twin"]


from cobald.daemon.plugins import constraints as _constraints  # noqa: E402


# ordered after the pipeline section: without a constraint the call order of section plugins follows the
# hash order of a set of strings, i.e. PYTHONHASHSEED (that is C14's territory, not a schedule)
@_constraints(after=["pipeline"])
def digest_simsection(content):
    _h().ev("simsection", None, content=str(content)[:60], loop_running=_loop_running())
    return content
