"""Smoke scenario used by the self-tests: a bit of everything, then shutdown."""
import random
import time

from .sched import S


def gen(seed, tier):
    rng = random.Random(seed)
    return {
        "prop": "SMOKE",
        "seed": seed,
        "knobs": {"accept_delay": 0.25, "delta": 1e-4, "horizon": 120.0, "strategy": rng.choice([{"kind": "random", "p": 0.05}, {"kind": "pct", "d": 2, "len": 2000}, {"kind": "random", "p": 0.3}])},
        "payloads": [
            {"id": "a0", "flavour": "asyncio", "via": "queued", "steps": [["hb", 0.5, None]]},
            {"id": "t0", "flavour": "trio", "via": "queued", "steps": [["hb", 0.5, None]], "cleanup_async": 0.3},
            {"id": "h0", "flavour": "threading", "via": "queued", "steps": [["hb", 0.5, 6]]},
            {"id": "a1", "flavour": "asyncio", "via": "adopt", "steps": [["spin", 5], ["sleep", 1.0], ["block"]], "args": [1, "x"], "kwargs": {"k": 2}},
            {"id": "t1", "flavour": "trio", "via": "adopt", "steps": [["sleep", 0.1], ["block"]]},
            {"id": "s0", "flavour": "trio", "via": "service-pre", "steps": [["hb", 1.0, None]]},
            {"id": "x0", "flavour": "trio", "via": "execute", "steps": [["sleep", 0.2], ["return", "obj"]]},
        ],
        "drivers": [
            {"id": "d0", "script": [["wait-running"], ["sleep", rng.choice([0.0, 0.1, 0.7])], ["adopt", "a1"], ["adopt", "t1"], ["execute", "x0"], ["sleep", 2.0], ["shutdown"]]},
        ],
        "grace": 1.0,
    }


def main(h):
    r = h.new_runner()
    h.pre_start(r)
    h.start_drivers()
    h.run_accept(r)
    time.sleep(h.sc.get("grace", 1.0))


def check(h, reason):
    v = []
    ended = [e for e in h.events if e["kind"] == "accept-ended"]
    if not ended or ended[0]["how"] != "returned":
        v.append({"key": "SMOKE/accept", "msg": "accept did not return: %r (%s)" % (ended, reason)})
    return v, ["smoke"], True
