"""C13 — the daemon as a whole: cobald.daemon.core.main.cli_run() in-process under the simulator."""
import logging
import os
import random
import shutil
import sys
import tempfile
import threading
import time

from .sched import S
from .common import base_knobs
from .harness import EXCEPTION_KINDS, FALSY_VALUES

PLUGIN_DIR = os.path.join(os.path.dirname(os.path.abspath(__file__)), "plugins")
SIM_KINDS = {"pool": "SimPool", "decorator": "SimDecorator", "controller": "SimController"}
VARIANTS = ["Plain", "Trio", "Asyncio", "Thread", "Plain", "Trio", "Asyncio", "Thread", "Twin"]
CONFIG_FAULTS = ["unknown-section", "missing-pipeline", "unknown-tag", "python-tag", "ctor-raises", "unknown-type", "unknown-extension", "missing-file", "is-directory", "truncated", "py-raises", "py-syntax", "empty-file"]


def _sim_element(rng, kind, idx, forms):
    var = rng.choice(VARIANTS)
    e = {"cls": SIM_KINDS[kind] + var, "sim": True, "service": var != "Plain", "flavour": {"Trio": "trio", "Asyncio": "asyncio", "Thread": "threading", "Twin": "asyncio"}.get(var), "name": "e%d" % idx, "form": rng.choice(forms), "hb": rng.choice([0.25, 0.5, 1.0])}
    if var in ("Trio", "Asyncio", "Twin") and rng.random() < 0.3:
        e["park"] = True  # idles on an awaitable nobody else references until it is cancelled
    if rng.random() < 0.12:
        e["empty"] = True  # a container-like element that is empty - falsy - when it is constructed
    return e


def gen(seed, tier):
    rng = random.Random(seed)
    knobs = base_knobs(rng, tier)
    knobs["accept_delay"] = 1.0  # the process-global runtime of cobald.daemon uses the default
    fmt = rng.choice(["yaml", "yaml", "yaml", "py"])
    forms = ["tag-map", "tag-seq", "type"] if fmt == "yaml" else ["py"]
    n = rng.randint(1, 6)
    elems = []
    # tail: a pool; middle: decorators; head: optionally a controller
    head_ctrl = n >= 2 and rng.random() < 0.7
    for i in range(n):
        if i == n - 1:
            e = _sim_element(rng, "pool", i, forms)
        elif i == 0 and head_ctrl:
            if rng.random() < 0.4:
                e = {"cls": rng.choice(["LinearController", "RelativeSupplyController"]), "sim": False, "service": True, "flavour": "trio", "name": "e%d" % i, "form": rng.choice(forms + (["tag-bare"] if fmt == "yaml" else [])), "interval": rng.choice([0.25, 0.5, 1.0])}
            else:
                e = _sim_element(rng, "controller", i, forms)
        else:
            if rng.random() < 0.35:
                e = {"cls": rng.choice(["Buffer", "Logger", "Standardiser"]), "sim": False, "service": False, "name": "e%d" % i, "form": rng.choice(forms + (["tag-bare"] if fmt == "yaml" else []))}
                if e["cls"] == "Buffer":
                    e.update(service=True, flavour="trio", interval=rng.choice([0.25, 0.5]))
            else:
                e = _sim_element(rng, "decorator", i, forms)
        elems.append(e)
    fault = None
    r = rng.random()
    if r < 0.3:
        fault = {"kind": "config", "what": rng.choice(CONFIG_FAULTS + ["ctor-raises", "ctor-raises"]), "pos": rng.randrange(n), "cut": rng.random()}
        # what a failing constructor raises is up to the class: lookups, type errors, missing files ...
        fault["ctor_exc"] = rng.choice(["ValueError", "KeyError", "KeyError", "KeyError", "TypeError", "TypeError", "AttributeError", "AttributeError", "IndexError", "LookupError", "OSError", "RuntimeError", "AssertionError", "ImportError", "NotImplementedError", "StopIteration"])  # the kinds generic handlers like to catch come more often
        if fmt == "py" and fault["what"] in ("unknown-section", "missing-pipeline", "unknown-tag", "python-tag", "unknown-type", "truncated", "empty-file"):
            fault["what"] = rng.choice(["ctor-raises", "py-raises", "py-syntax", "unknown-extension", "missing-file"])
        if fmt == "yaml" and fault["what"] in ("py-raises", "py-syntax"):
            fault["what"] = rng.choice(["unknown-tag", "ctor-raises", "truncated", "python-tag"])
        if fault["what"] == "ctor-raises" and not elems[fault["pos"]]["sim"]:
            sims = [i for i, e in enumerate(elems) if e["sim"]]
            fault["pos"] = rng.choice(sims)
    elif r < 0.5:
        svcs = [i for i, e in enumerate(elems) if e["sim"] and e["service"]]
        if svcs:
            kind = rng.choice(EXCEPTION_KINDS + ["ret:" + v for v in FALSY_VALUES[:4]] + ["ret:str", "SystemExit", "BaseSub"])
            fault = {"kind": "service", "pos": rng.choice(svcs), "after": rng.choice([0.0, 0.0, 0.3, 1.0, 2.5]), "fail_kind": kind}
    extras = {"logging": fmt == "yaml" and rng.random() < 0.3, "simsection": fmt == "yaml" and rng.random() < 0.3}
    extras["late_modules"] = fmt == "yaml" and rng.random() < 0.25
    if extras["logging"]:
        # with or without spelling out disable_existing_loggers (cobald defaults it to false for the user)
        extras["logging"] = rng.choice(["explicit", "default", "default-with-root"])
    t_sig = rng.choice([1.5, 2.0, 3.0, 4.5, 7.0])
    dscript = [["sleep", t_sig], ["sigint"]]
    if rng.random() < 0.2:
        # "all signal times after start": also right after the runtime reports running, i.e. possibly while the
        # configuration is still being loaded or its services are being adopted
        t_sig = rng.choice([0.0, 0.0, 0.002, 0.05, 0.3])
        dscript = [["wait-running"], ["sleep", t_sig], ["sigint"]]
    gcs = []
    if rng.random() < 0.6:
        gcs = [{"id": "g0", "script": [["wait-marker", "constructed"]] + [x for _ in range(rng.randint(1, 4)) for x in (["gc"], ["sleep", rng.choice([0.0, 0.05, 0.3, 1.0])])]}]
    knobs["horizon"] = 40.0
    return {"prop": "C13", "seed": seed, "knobs": knobs, "format": fmt, "elements": elems, "fault": fault, "extras": extras, "drivers": [{"id": "d0", "script": dscript}] + gcs, "t_sig": t_sig, "payloads": [], "cli": rng.choice([[], ["--log-level", "DEBUG"], ["--log-journal"], ["--log-target", "@file"]])}


# -- configuration text ----------------------------------------------------------
def _kwargs(e, fault_here):
    if e["sim"]:
        kw = {"name": e["name"], "hb": e["hb"]}
        if e.get("park"):
            kw["park"] = True
        if e.get("empty"):
            kw["empty"] = True
        if e.get("eqkey"):
            kw["eqkey"] = e["eqkey"]
        if fault_here and fault_here["kind"] == "config" and fault_here["what"] == "ctor-raises":
            kw["fail_init"] = fault_here.get("ctor_exc", "ValueError")
        if fault_here and fault_here["kind"] == "service":
            kw["fail_after"] = fault_here["after"]
            kw["fail_kind"] = fault_here["fail_kind"]
        return kw
    if e["cls"] in ("LinearController", "RelativeSupplyController"):
        return {"interval": e["interval"]}
    if e["cls"] == "Buffer":
        return {"window": e["interval"]}
    if e["cls"] == "Logger":
        return {"name": "verif." + e["name"]}
    if e["cls"] == "Standardiser":
        return {"minimum": 0}
    return {}


def _y(v):
    if isinstance(v, bool):
        return "true" if v else "false"
    if v is None:
        return "null"
    if isinstance(v, str):
        return '"%s"' % v
    return repr(v)


TYPE_PATH = {
    "LinearController": "cobald.controller.linear.LinearController",
    "RelativeSupplyController": "cobald.controller.relative_supply.RelativeSupplyController",
    "Buffer": "cobald.decorator.buffer.Buffer",
    "Logger": "cobald.decorator.logger.Logger",
    "Standardiser": "cobald.decorator.standardiser.Standardiser",
}
SEQ_ORDER = {"sim": ["name", "hb", "fail_init", "fail_after", "fail_kind", "park"], "LinearController": None, "RelativeSupplyController": None, "Buffer": ["window"], "Logger": ["name"], "Standardiser": ["minimum"]}


def render_yaml(sc):
    fault = sc.get("fault")
    lines = []
    lg = sc["extras"].get("logging")
    if lg:
        lines += ["logging:", "  version: 1"]
        if lg in (True, "explicit"):
            lines += ["  disable_existing_loggers: false"]
        if lg != "default":
            lines += ["  root:", "    level: INFO"]
    if sc["extras"].get("simsection"):
        lines += ["simsection:", "  answer: 42"]
    if fault and fault["kind"] == "config" and fault["what"] == "unknown-section":
        lines += ["bogus_section:", "  x: 1"]
    if not (fault and fault["kind"] == "config" and fault["what"] == "missing-pipeline"):
        lines.append("pipeline:")
        for i, e in enumerate(sc["elements"]):
            here = fault if (fault and fault.get("pos") == i) else None
            kw = _kwargs(e, here)
            form = e["form"]
            if here and here["kind"] == "config" and here["what"] == "unknown-tag":
                lines.append("  - !NoSuchTag")
                lines += ["    %s: %s" % (k, _y(v)) for k, v in kw.items()]
                continue
            if here and here["kind"] == "config" and here["what"] == "python-tag":
                lines.append("  - !!python/object/apply:os.getcwd []")
                continue
            if here and here["kind"] == "config" and here["what"] == "unknown-type":
                lines.append("  - __type__: rtsim.c13_elements.DoesNotExist")
                lines += ["    %s: %s" % (k, _y(v)) for k, v in kw.items()]
                continue
            if form == "tag-seq":
                order = SEQ_ORDER["sim"] if e["sim"] else SEQ_ORDER.get(e["cls"])
                if order is None or any(k not in order for k in kw) or (e["sim"] and ("fail_after" in kw or "fail_init" in kw or "park" in kw or "empty" in kw or "eqkey" in kw)):
                    form = "tag-map"
                else:
                    vals = [kw[k] for k in order if k in kw]
                    lines.append("  - !%s [%s]" % (e["cls"], ", ".join(_y(v) for v in vals)))
                    continue
            if form == "tag-bare" and (e["sim"] or e["cls"] == "Buffer"):
                form = "tag-map"
            if form == "tag-bare":
                lines.append("  - !%s" % e["cls"])
            elif form == "tag-map":
                lines.append("  - !%s" % e["cls"])
                lines += ["    %s: %s" % (k, _y(v)) for k, v in kw.items()]
            else:
                path = TYPE_PATH.get(e["cls"], "rtsim.c13_elements." + e["cls"])
                if e["sim"] and sc.get("extras", {}).get("late_modules"):
                    # named through a submodule of a package nothing has imported yet
                    path = "verifcfgpkg.m%d.%s" % (i, e["cls"])
                lines.append("  - __type__: %s" % path)
                lines += ["    %s: %s" % (k, _y(v)) for k, v in kw.items()]
    return "\n".join(lines) + "\n"


def render_py(sc):
    fault = sc.get("fault")
    lines = ["import rtsim.c13_elements as sim", "from cobald.controller.linear import LinearController", "from cobald.controller.relative_supply import RelativeSupplyController", "from cobald.decorator.buffer import Buffer", "from cobald.decorator.logger import Logger", "from cobald.decorator.standardiser import Standardiser", ""]
    parts = []
    n = len(sc["elements"])
    for i, e in enumerate(sc["elements"]):
        here = fault if (fault and fault.get("pos") == i) else None
        kw = _kwargs(e, here)
        ref = ("sim." + e["cls"]) if e["sim"] else e["cls"]
        args = ", ".join("%s=%r" % (k, v) for k, v in kw.items())
        if i == n - 1:
            parts.append("%s(%s)" % (ref, args))
        else:
            parts.append("%s.s(%s)" % (ref, args))
    if fault and fault["kind"] == "config" and fault["what"] == "py-raises":
        lines.append("raise RuntimeError('configuration module fails as configured')")
    lines.append("pipeline = " + " >> ".join(parts))
    if fault and fault["kind"] == "config" and fault["what"] == "py-syntax":
        lines.append("def broken(:")
    return "\n".join(lines) + "\n"


def _exc_text(record):
    from .harness import _exc_text as f

    return f(record)


def _scrub(h, txt):
    if txt:
        import re

        txt = re.sub(r"/tmp/verif-c13-[A-Za-z0-9_]*", "<tmp>", txt)
    return txt


class _LogTap:
    """Class level wrapper around logging.Logger.handle: independent of whatever handlers a
    `logging:` section or basicConfig installs."""

    installed = False

    @classmethod
    def install(cls, h):
        if cls.installed:
            return
        cls.installed = True
        orig = logging.Logger.handle

        def handle(self, record):
            if record.name.startswith("cobald"):
                h.log_records.append({"logger": record.name, "level": record.levelno, "msg": str(record.msg)[:80], "exc": record.exc_info[0].__name__ if record.exc_info and record.exc_info[0] else None, "exc_text": _exc_text(record), "t": round(S.now, 6)})
                if record.levelno >= logging.ERROR:
                    h.ev("error-log", None, logger=record.name, msg=str(record.msg)[:60], exc_text=_scrub(h, _exc_text(record)))
            return orig(self, record)

        logging.Logger.handle = handle


def main(h):
    sc = h.sc
    if PLUGIN_DIR not in sys.path:
        sys.path.insert(0, PLUGIN_DIR)
    import cobald.daemon
    from cobald.daemon.core import main as cmain

    tmp = tempfile.mkdtemp(prefix="verif-c13-")
    h.extra["tmp"] = tmp
    fault = sc.get("fault")
    ext = ".yaml" if sc["format"] == "yaml" else ".py"
    text = render_yaml(sc) if sc["format"] == "yaml" else render_py(sc)
    what = fault["what"] if fault and fault["kind"] == "config" else None
    if what == "unknown-extension":
        ext = random.Random(sc["seed"]).choice([".txt", ".json", ".yml.bak", ""])
    if what == "truncated":
        text = text[: int(len(text) * fault.get("cut", 0.5))]
    if what == "empty-file":
        text = ""
    if sc.get("extras", {}).get("late_modules"):
        pkg = os.path.join(tmp, "verifcfgpkg")
        os.mkdir(pkg)
        open(os.path.join(pkg, "__init__.py"), "w").close()
        for i, e in enumerate(sc["elements"]):
            if e["sim"]:
                with open(os.path.join(pkg, "m%d.py" % i), "w") as f:
                    f.write("from rtsim.c13_elements import %s  # noqa: F401\n" % e["cls"])
        sys.path.insert(0, tmp)
    path = os.path.join(tmp, "config" + ext)
    if what == "is-directory":
        os.mkdir(path)
    elif what != "missing-file":
        with open(path, "w") as f:
            f.write(text)
    h.extra["config_text"] = text
    _LogTap.install(h)
    runtime = cobald.daemon.runtime
    h.runners.append(runtime)
    h.runner = runtime
    h.accept_sid = S.current().sid
    cli = [("%s/daemon.log" % tmp if a == "@file" else a) for a in sc.get("cli", [])]
    sys.argv = ["cobald", path] + cli
    h.start_drivers()
    h.ev("cli-call", None, argv=sc.get("cli", []), ext=ext)
    status = None
    try:
        cmain.cli_run()
        status = 0
    except SystemExit as e:
        status = e.code if isinstance(e.code, int) else (0 if e.code is None else 1)
    except KeyboardInterrupt:
        status = 130
    except BaseException as e:
        status = 1
        h.extra["exit_exc"] = type(e).__name__
    h.ev("cli-ended", None, status=status, exc=h.extra.get("exit_exc"))
    # interpreter finalisation: non-daemon threads are joined
    t0 = S.now
    for t in threading.enumerate():
        if t is threading.current_thread() or t.daemon:
            continue
        t.join(timeout=10.0)
        if t.is_alive():
            h.ev("exit-hangs", None, thread=t.name)
            break
    h.ev("process-exit", None, status=status, waited=round(S.now - t0, 3))
    time.sleep(1.0)  # anything still alive may show itself


def cleanup(h):
    tmp = h.extra.get("tmp")
    if tmp:
        shutil.rmtree(tmp, ignore_errors=True)


def check(h, reason):
    v = []

    def V(key, msg):
        if not any(x["key"] == key for x in v):
            v.append({"key": key, "msg": msg})

    sc = h.sc
    ev = h.events
    elems = sc["elements"]
    fault = sc.get("fault")
    fkind = fault["kind"] if fault else None
    ended = next((e for e in ev if e["kind"] == "cli-ended"), None)
    exit_ev = next((e for e in ev if e["kind"] == "process-exit"), None)
    sig = next((e for e in ev if e["kind"] == "sigint-sent"), None)
    constructed = {}
    for e in ev:
        if e["kind"] == "constructed":
            constructed.setdefault(e.get("pid"), []).append(e)
    run_started = {}
    for e in ev:
        if e["kind"] == "run-started":
            run_started.setdefault(e.get("pid"), []).append(e)
    errors = [e for e in ev if e["kind"] == "error-log" and e["logger"].startswith("cobald.runtime")]
    what = fault["what"] if fkind == "config" else (fault["fail_kind"] if fkind == "service" else "none")
    shape = ["C13", sc["format"], [(e["cls"], e["form"]) for e in elems], fkind, what, sorted(sc["extras"].items()), ended["status"] if ended else None]
    early = next((e for e in ev if e["kind"] == "service-run-before-init"), None)
    if early is not None:
        V("C13/service-run-before-init/%s" % early.get("cls"), "run() of a configured service (%s) was started by the accept loop before its __init__ had finished: the unit is registered in __new__ and adopted from another thread" % early.get("cls"))
    if early is None:
        # the same defect with a *shipped* service class: its run() touches attributes __init__ has not set yet
        import re

        shipped = {e["cls"] for e in elems if not e["sim"] and e.get("service")}
        for e in errors:
            m = re.search(r"AttributeError: '(\w+)' object has no attribute", e.get("exc_text") or "")
            if m and m.group(1) in shipped and ":run" in (e.get("exc_text") or ""):  # raised inside the service's run()
                early = {"cls": m.group(1)}
                V("C13/service-run-before-init/%s" % m.group(1), "run() of the configured shipped service %s was started by the accept loop before its __init__ had finished (%s); the daemon went down at start-up" % (m.group(1), (e.get("exc_text") or "")[:160]))
                return v, shape, True
    hang = next((e for e in ev if e["kind"] == "exit-hangs"), None)
    if hang is not None:
        V("C13/exit-hangs", "after main returned, non-daemon thread %s was still alive: the process would hang at exit" % hang["thread"])
    sim_services = [e for e in elems if e["sim"] and e["service"]]
    truncated = fkind == "config" and fault["what"] in ("truncated", "empty-file")
    # did loading fail? (reference free for truncated files)
    if truncated:
        expect_fail = None
    else:
        expect_fail = fkind is not None
    # a service that fails after the SIGINT is no failure of this run
    if fkind == "service":
        failing = elems[fault["pos"]]
        happened = any(e["kind"] in ("raise", "return") and e.get("pid") == failing["name"] and (ended is None or e["seq"] < ended["seq"]) for e in ev)
        if not happened:
            expect_fail = False
    if ended is None:
        if expect_fail or (truncated and not run_started):
            V("C13/up-and-idle/%s/%s" % (fkind or "truncated", what), "fault %s/%s: the daemon was still up at the end of the run (%s), %d services running" % (fkind, what, reason, len(run_started)))
        elif sig is not None and S.now - sig["t"] > 8.0:
            V("C13/sigint-ignored", "SIGINT at t=%.2f but the daemon was still up %.2fs later (%s)" % (sig["t"], S.now - sig["t"], reason))
        return v, shape, True
    status = ended["status"]
    if expect_fail is None:
        # truncated / empty: either loading raised (non-zero exit + error) or whatever was constructed runs
        expect_fail = status != 0 or bool(errors)
        if not expect_fail:
            expect_fail = False
    first_err = next((e for e in ev if e["kind"] == "error-log" and e["logger"].startswith("cobald.runtime")), None)
    if expect_fail and sig is not None and sig["seq"] < ended["seq"] and fkind in ("config", "service") and not truncated:
        # when the fault struck is known from the scenario itself, whether or not anything was logged: a
        # daemon that is still up seconds later "stays up idle" and merely got stopped by the interrupt
        if fkind == "service":
            struck = next((e for e in ev if e["kind"] in ("raise", "return") and e.get("pid") == elems[fault["pos"]]["name"]), None)
        elif fault["what"] == "ctor-raises":
            struck = next((e for e in ev if e["kind"] == "constructed" and e.get("pid") == elems[fault["pos"]]["name"]), None)
        else:
            struck = ev[0] if ev else None  # the configuration is loaded right at start-up
        if struck is not None and sig["t"] - struck["t"] > 3.0:
            V("C13/up-and-idle/%s/%s" % (fkind, what), "fault %s/%s struck at t=%.2f: the daemon was still up %.2fs later when the SIGINT stopped it (errors logged until then: %d)" % (fkind, what, struck["t"], sig["t"] - struck["t"], sum(1 for e in errors if e["seq"] < sig["seq"])))
            return v, shape, True
    if expect_fail and sig is not None and sig["seq"] < (first_err["seq"] if first_err else 10**12) and sig["seq"] < ended["seq"]:
        # the interrupt arrived before the failure had been noticed by the runtime: two triggers at once,
        # either outcome (graceful exit 0, or the failure's non-zero status) is legitimate
        S.probe("sigint-before-failure-reported")
        return v, shape, True
    interrupted_too = sig is not None and sig["seq"] < ended["seq"]
    if expect_fail and interrupted_too:
        # ... but only if the interrupt came while the failure could still be on its way out: a daemon that is
        # still up seconds after the failure "stays up idle" and merely got stopped by the interrupt
        fail_ev = next((e for e in ev if e["kind"] in ("raise", "return") or e["kind"] == "error-log"), None)
        t_fail = fail_ev["t"] if fail_ev is not None else 0.0
        if sig["t"] - t_fail > 3.0:
            V("C13/up-and-idle/%s/%s" % (fkind or "truncated", what), "fault %s/%s at t=%.2f: the daemon was still up %.2fs later when the SIGINT stopped it" % (fkind, what, t_fail, sig["t"] - t_fail))
            return v, shape, True
    if expect_fail:
        if status == 0 and interrupted_too:
            # failure and interrupt both arrived before the daemon was down: "only a KeyboardInterrupt ends the
            # run without an error" - the graceful exit status is one of the two legitimate outcomes (as in C01)
            S.probe("failure-masked-by-sigint")
        elif status == 0:
            V("C13/exit-zero-on-failure/%s/%s" % (fkind or "truncated", what), "fault %s/%s but the daemon exited with status 0" % (fkind, what))
        logging_cut = truncated and sc["extras"].get("logging")  # a cut logging section may legitimately disable the existing loggers (dictConfig default)
        if not errors and not logging_cut:
            V("C13/no-error-log/%s/%s" % (fkind or "truncated", what), "fault %s/%s: no ERROR record on a cobald.runtime logger (status %r)" % (fkind, what, status))
        first_bad = next((e for e in ev if e["kind"] in ("raise", "return") or (e["kind"] == "error-log")), None)
        if first_bad is not None and ended["t"] - first_bad["t"] > 8.0:
            V("C13/late-exit/%s" % (fkind or "truncated"), "the daemon exited %.2fs after the failure" % (ended["t"] - first_bad["t"]))
        return v, shape, True
    # valid configuration, no failure before the stop
    if status != 0:
        V("C13/nonzero-exit/%s/%s" % (status, h.extra.get("exit_exc")), "valid configuration and SIGINT, but exit status %r (%s); errors logged: %r" % (status, h.extra.get("exit_exc"), [e["msg"] for e in errors][:3]))
    if sig is None or ended["t"] < sig["t"] - 1e-9:
        V("C13/exited-early", "valid configuration: the daemon exited (status %r) at t=%.2f before anyone stopped it" % (status, ended["t"]))
        return v, shape, True
    early_stop = sig is not None and sig["t"] < 1.0  # the load itself may have been interrupted
    if not truncated:
        for e in elems:
            if not e["sim"]:
                continue
            c = constructed.get(e["name"], [])
            if early_stop and len(c) == 0:
                continue
            if len(c) != 1:
                V("C13/construct-count/%s" % e["cls"], "element %s (%s) was constructed %d times" % (e["name"], e["cls"], len(c)))
                continue
            if not c[0]["loop_running"] or c[0]["sid"] != h.accept_sid:
                V("C13/constructed-outside-loop/%s" % sc["format"], "element %s was constructed with loop_running=%r on sim thread %r (accept runs on %r)" % (e["name"], c[0]["loop_running"], c[0]["sid"], h.accept_sid))
    for e in elems:
        if not (e["sim"] and e["service"]):
            continue
        if truncated and e["name"] not in constructed:
            continue
        rs = run_started.get(e["name"], [])
        con = constructed.get(e["name"], [])
        if len(rs) == 0 and (not con or sig["t"] - con[0]["t"] < 1.3):
            continue  # stopped before the accept loop's next poll (at most accept_delay = 1 s later) could see it
        if len(rs) == 0:
            V("C13/service-never-started/%s" % e["flavour"], "configured %s service %s (%s) was constructed but its run() never started although the daemon ran for %.2fs" % (e["flavour"], e["name"], e["cls"], sig["t"]))
            continue
        if len(rs) > 1:
            V("C13/service-started-twice/%s" % e["flavour"], "service %s started %d times" % (e["name"], len(rs)))
        hbs = [x for x in ev if x["kind"] == "hb" and x.get("pid") == e["name"] and x["seq"] < sig["seq"]]
        if not truncated and not e.get("park") and hbs and sig["t"] - hbs[-1]["t"] > e["hb"] + 0.1:
            V("C13/service-died/%s" % e["flavour"], "service %s last ticked %.2fs before the SIGINT (period %.2f)" % (e["name"], sig["t"] - hbs[-1]["t"], e["hb"]))
        if e["flavour"] != "threading":
            c = next((x for x in ev if x["kind"] == "cancelled" and x.get("pid") == e["name"]), None)
            if c is None or c["seq"] > ended["seq"]:
                V("C13/service-not-cancelled/%s" % e["flavour"], "SIGINT: %s service %s was not cancelled before the daemon exited" % (e["flavour"], e["name"]))
    return v, shape, True
