"""C01 — background failures always stop the daemon (fail-stop, never silent)."""
import random
import time

from .sched import S
from .harness import EXCEPTION_KINDS, ODD_EXCEPTION_KINDS, BASE_KINDS, FALSY_VALUES, TRUTHY_VALUES
from .common import gen_stalls, gen_slow_starts, base_knobs, bystanders, liveness_bound, FL

TIMES = [0.0, 0.0, 0.001, 0.05, 0.25, 0.3, 0.5, 1.0]


def gen(seed, tier):
    rng = random.Random(seed)
    knobs = base_knobs(rng, tier)
    knobs["stalls"] = gen_stalls(rng)
    knobs["slow_starts"] = gen_slow_starts(rng)
    if rng.random() < 0.08:
        sc = gen_double(rng, knobs)
        sc["seed"] = seed
        return sc
    relaxed = rng.random() < (0.15 if tier == "quick" else 0.25)
    payloads = bystanders(rng, rng.randint(0, 6), allow_spin=rng.random() < 0.3)
    drivers = []
    nfail = rng.choice([1, 1, 1, 2, 2, 3])
    # family: several payloads of one flavour failing at the same virtual
    # instant (the runners' "first failure wins" bookkeeping under contention)
    simul = rng.random() < 0.12
    simul_fl = rng.choice(FL)
    if simul:
        nfail = rng.choice([2, 2, 3, 4])
        knobs["strategy"] = {"kind": "random", "p": rng.choice([0.1, 0.2, 0.5])}
    # swarm: restrict the kinds of this run
    kind_pool = []
    for grp, w in ((EXCEPTION_KINDS, 3), (ODD_EXCEPTION_KINDS, 1), (BASE_KINDS + ["KeyboardInterrupt"], 1), (["ret:" + v for v in FALSY_VALUES], 3), (["ret:" + v for v in TRUTHY_VALUES], 1)):
        if rng.random() < 0.7:
            kind_pool += grp * w
    if not kind_pool:
        kind_pool = EXCEPTION_KINDS + ["ret:" + v for v in FALSY_VALUES]
    align = rng.choice(TIMES)
    tmax = 0.0
    dscript = [["wait-running"]]
    for i in range(nfail):
        fl = rng.choice(FL)
        kind = rng.choice(kind_pool)
        t = align if (i > 0 and rng.random() < 0.6) else rng.choice(TIMES)
        via = rng.choice(["queued", "queued", "adopt-driver", "adopt-payload", "service-pre", "service-late-driver", "service-late-payload"])
        if simul:
            t = align
            via = rng.choice(["queued", "queued", "service-pre"])
            if rng.random() < 0.85:
                fl = simul_fl
        tmax = max(tmax, t)
        step = ["return", kind[4:]] if kind.startswith("ret:") else ["raise", kind]
        pid = "f%d" % i
        spec = {"id": pid, "flavour": fl, "steps": [["sleep", t], step] if t > 0 else ([["spin", 1], step] if rng.random() < 0.3 else [step]), "fails": True, "trigger": True}
        if rng.random() < 0.3:
            spec["cleanup_sync"] = rng.randint(1, 3)
        if fl != "threading" and step[0] == "raise" and via in ("queued", "adopt-driver", "adopt-payload") and rng.random() < 0.15:
            # the payload fails when it is called, before it has produced a coroutine
            spec["at_call"] = True
            spec["steps"] = [step]
        if via == "queued":
            spec["via"] = "queued"
        elif via == "service-pre":
            spec["via"] = "service-pre"
        elif via == "adopt-driver":
            spec["via"] = "adopt"
            dscript += [["sleep", rng.choice([0.0, 0.0, 0.1, 0.6])], ["adopt", pid]]
        elif via == "service-late-driver":
            spec["via"] = "service"
            dscript += [["sleep", rng.choice([0.0, 0.0, 0.1, 0.6])], ["create-service", pid]]
        else:
            pfl = rng.choice(FL)
            spec["via"] = "adopt" if via == "adopt-payload" else "service"
            op = "adopt" if via == "adopt-payload" else "create-service"
            payloads.append(
                {"id": "par%d" % i, "flavour": pfl, "via": rng.choice(["queued", "queued", "service-pre"]), "steps": [["sleep", rng.choice([0.0, 0.0, 0.1, 0.4])], [op, pid], ["hb", 0.5, None]], "parent_of": pid}
            )
        payloads.append(spec)
    if rng.random() < 0.4:
        # garbage collection while payloads idle on awaitables only they reference
        dscript += [["sleep", rng.choice([0.0, 0.05, 0.2])], ["gc"]]
    triggers = []
    if relaxed:
        trig = rng.choice(["sigint", "shutdown"])
        gap = rng.choice([0.0, 0.1, 0.3, 1.0])
        if rng.random() < 0.35:
            # the stop request lands within a few ms of the first failure: the second
            # termination finds the handling of the first one half way through
            gap = max(0.0, min(p_["steps"][0][1] if p_["steps"][0][0] == "sleep" else 0.0 for p_ in payloads if p_.get("fails")) + rng.choice([-0.003, -0.002, -0.001, 0.0, 0.001, 0.002, 0.003, 0.005]))
            dscript = [dscript[0]] + [st for st in dscript[1:] if st[0] != "sleep"]
        dscript += [["sleep", gap], [trig]]
        triggers.append(trig)
    mode = "accept"
    if not relaxed and not any(p.get("via", "").startswith("service") for p in payloads) and rng.random() < 0.25:
        mode = "run"  # MetaRunner.run() directly, no service loop
        dscript[0] = ["wait-meta-running"]
    drivers.append({"id": "d0", "script": dscript})
    rng.shuffle(payloads)
    knobs["horizon"] = 4.0 + tmax + knobs["accept_delay"] + 5.0 + sum(p.get("cleanup_async", 0) for p in payloads) + 3.0
    return {"prop": "C01", "seed": seed, "knobs": knobs, "payloads": payloads, "drivers": drivers, "relaxed": relaxed, "mode": mode, "grace": 1.5}


def gen_double(rng, knobs):
    """Two terminations of different kinds within a few ms: a stop request (SIGINT / shutdown) and a
    payload that interrupts (KeyboardInterrupt, SystemExit) or fails - the second one arrives while
    the first one is being handled, and helper threads created for the cleanup may start late."""
    t0 = rng.choice([0.05, 0.3])
    fl = rng.choice(FL)
    kind = rng.choice(["KeyboardInterrupt", "KeyboardInterrupt", "SystemExit", "LookupError", "ret:0"])
    step = ["return", kind[4:]] if kind.startswith("ret:") else ["raise", kind]
    payloads = bystanders(rng, rng.randint(0, 3))
    payloads.append({"id": "f0", "flavour": fl, "via": rng.choice(["queued", "service-pre"]), "steps": [["sleep", t0], step], "fails": True, "trigger": True})
    gap = max(0.0, t0 + rng.choice([-0.003, -0.002, -0.001, 0.0, 0.001, 0.002, 0.003]))
    dscript = [["wait-running"], ["sleep", gap], [rng.choice(["sigint", "sigint", "shutdown"])]]
    knobs["strategy"] = rng.choice([{"kind": "random", "p": 0.2}, {"kind": "random", "p": 0.05}, {"kind": "pct", "d": 2, "len": 2500}])
    if rng.random() < 0.6:
        knobs["slow_starts"] = [{"after": True, "count": rng.choice([1, 2, 3]), "dur": rng.choice([0.002, 0.005, 0.02])}]
    knobs["horizon"] = 4.0 + t0 + knobs["accept_delay"] + 8.0
    rng.shuffle(payloads)
    return {"prop": "C01", "seed": 0, "knobs": knobs, "payloads": payloads, "drivers": [{"id": "d0", "script": dscript}], "relaxed": True, "mode": "accept", "grace": 1.5}


def main(h):
    r = h.new_runner()
    h.pre_start(r)
    h.start_drivers()
    h.run_accept(r, h.sc.get("mode", "accept"))
    time.sleep(h.sc.get("grace", 1.5))


def check(h, reason):
    v = []
    ev = h.events
    specs = h.specs
    ended = next((e for e in ev if e["kind"] == "accept-ended"), None)
    end_seq = ended["seq"] if ended else 10**12
    fails = [e for e in ev if e["kind"] in ("raise", "return") and e["seq"] < end_seq and not (e["kind"] == "return" and e["value"] == "none") and specs.get(e["pid"], {}).get("fails")]
    stops = [e for e in ev if e["kind"] in ("sigint-sent", "shutdown-call", "stop-call") and e["seq"] < end_seq]
    shape = ["C01", sorted((specs[e["pid"]]["flavour"], e.get("exc") or ("ret:" + e.get("value", "")), specs[e["pid"]].get("via")) for e in fails), len(specs), bool(stops), h.sc.get("mode")]
    if not fails:
        return v, shape, False
    first = fails[0]
    fspec = specs[first["pid"]]
    what = first.get("exc") or ("ret:" + first["value"])
    tag = "%s/%s" % (fspec["flavour"], what)
    bound = liveness_bound(h)
    kinds = [e.get("exc") for e in fails if e["kind"] == "raise"]
    only_plain = all(k in EXCEPTION_KINDS or k in ODD_EXCEPTION_KINDS for k in kinds)
    has_ki = "KeyboardInterrupt" in kinds
    if ended is None:
        if S.now - first["t"] > bound or reason in ("deadlock",):
            # a distinct history: two terminations, the later one killing the event loop while the
            # first one's cleanup was under way, and a coroutine payload that swallowed the last
            # cancellation it was sent - nobody is left to cancel it again (see known findings)
            done = {e["pid"] for e in ev if e["kind"] == "finished"}
            swallowing = sorted({e["pid"] for e in ev if e["kind"] == "swallowed-cancel"} - done)
            if swallowing and len(fails) + len(stops) >= 2:
                v.append({"key": "C01/not-ended/two-terminations/swallowed-last-cancel", "msg": "terminations %r; payload(s) %r swallowed the last cancellation sent to them and were never cancelled again: the run call had not ended %.2f virtual seconds after the first failure (end of run: %s)" % ([(e["kind"], e.get("pid"), e.get("exc") or e.get("value")) for e in sorted(fails + stops, key=lambda e: e["seq"])], swallowing, S.now - first["t"], reason)})
                return v, shape, True
            v.append({"key": "C01/not-ended/" + tag, "msg": "payload %s (%s, via %s) failed with %s at t=%.4f but the run call had not ended %.2f virtual seconds later (end of run: %s)" % (first["pid"], fspec["flavour"], fspec.get("via"), what, first["t"], S.now - first["t"], reason)})
        return v, shape, True
    if ended["t"] - first["t"] > bound:
        v.append({"key": "C01/late-end/" + tag, "msg": "run call ended %.2fs after the first failure (bound %.2f)" % (ended["t"] - first["t"], bound)})
    if has_ki:
        return v, shape, True  # only a KeyboardInterrupt may end the run without an error
    if ended["how"] == "returned":
        if stops:
            S.probe("relaxed-normal-return")
            return v, shape, True
        v.append({"key": "C01/returned-normally/" + tag, "msg": "payload %s failed with %s but the run call returned normally" % (first["pid"], what)})
        return v, shape, True
    if only_plain:
        ok = ended.get("is_runtime_error") and (set(ended.get("cause_raise_pids", [])) | set(ended.get("cause_return_pids", []))) & {e["pid"] for e in fails}
        if not ok and not stops:
            v.append(
                {
                    "key": "C01/wrong-error/" + tag,
                    "msg": "failures %r: run call raised %s with cause chain %r; expected RuntimeError caused by one of the original exceptions / an OrphanedReturn carrying the returned object"
                    % ([(e["pid"], e.get("exc") or e.get("value")) for e in fails], ended.get("type"), ended.get("cause_types")),
                }
            )
    return v, shape, True
