"""C02 — termination cancels every coroutine payload and finishes its cleanup first."""
import random
import time

from .sched import S
from .common import gen_stalls, gen_slow_starts, base_knobs, liveness_bound, FL

CANCEL_NAME = {"asyncio": "CancelledError", "trio": "Cancelled"}


def gen(seed, tier):
    rng = random.Random(seed)
    knobs = base_knobs(rng, tier)
    knobs["stalls"] = gen_stalls(rng)
    knobs["slow_starts"] = gen_slow_starts(rng)
    payloads = []
    dscript = [["wait-running"]]
    n = rng.randint(0, 7)
    allow_spin = rng.random() < 0.3
    late = []
    for i in range(n):
        fl = rng.choice(["asyncio", "trio", "asyncio", "trio", "threading"])
        pid = "p%d" % i
        if fl == "threading":
            steps = rng.choice([[["block"]], [["hb", 0.5, None]], [["sleep", 0.3], ["return", "none"]]])
        else:
            opts = [[["hb", 0.5, None]], [["block"]], [["sleep", 0.3], ["return", "none"]], [["spin", 4], ["block"]], [["hb", 0.125, None]], [["swallow", rng.choice([1, 2, 3])]], [["park"]]]
            if allow_spin:
                opts.append([["spin-forever"]])
            steps = rng.choice(opts)
        spec = {"id": pid, "flavour": fl, "steps": steps}
        if fl != "threading":
            spec["cleanup_sync"] = rng.choice([0, 0, 1, 2, 5])
        if fl == "trio" and rng.random() < 0.5:
            spec["cleanup_async"] = rng.choice([0.01, 0.1, 0.5, 2.0])
        via = rng.choice(["queued", "queued", "service-pre", "adopt-driver", "adopt-payload", "service-late"])
        if via in ("queued", "service-pre"):
            spec["via"] = via
        elif via == "adopt-driver":
            spec["via"] = "adopt"
            late.append(["adopt", pid])
        elif via == "service-late":
            spec["via"] = "service"
            late.append(["create-service", pid])
        else:
            spec["via"] = "adopt"
            payloads.append({"id": "par%d" % i, "flavour": rng.choice(FL), "via": "queued", "steps": [["sleep", rng.choice([0.0, 0.1, 0.3])], ["adopt", pid], ["block"]], "cleanup_sync": 1})
        payloads.append(spec)
    if rng.random() < 0.2:
        # a coroutine payload that keeps calling execute(): when the termination arrives its loop
        # thread is, more likely than not, blocked waiting for the other loop or for a thread
        cfl = rng.choice(["asyncio", "trio"])
        ofl = "trio" if cfl == "asyncio" else "asyncio"
        steps = [["sleep", rng.choice([0.0, 0.1])]]
        for j in range(rng.randint(2, 6)):
            payloads.append({"id": "xq%d" % j, "flavour": rng.choice([ofl, ofl, "threading"]), "via": "execute", "steps": [["sleep", rng.choice([0.05, 0.2, 0.5])], ["return", "none"]], "cleanup_sync": 1})
            steps += [["execute", "xq%d" % j], ["sleep", rng.choice([0.0, 0.05])]]
        payloads.append({"id": "execer", "flavour": cfl, "via": "queued", "steps": steps + [["block"]], "cleanup_sync": 1})
    if rng.random() < 0.12:
        # a coroutine payload whose clean-up calls execute() once more (flush something through a thread
        # payload, say) - possibly after the runners have gone: it is refused then, it does not block
        cfl = rng.choice(["trio", "trio", "asyncio"])
        payloads.append({"id": "cx", "flavour": "threading", "via": "execute", "steps": [["return", "none"]]})
        spec = {"id": "cexec", "flavour": cfl, "via": "queued", "steps": [["block"]], "cleanup_sync": 1, "cleanup_execute": "cx"}
        if cfl == "trio":
            spec["cleanup_async"] = rng.choice([0.1, 0.5])
        payloads.append(spec)
    if rng.random() < 0.1:
        # a worker that re-adopts itself whenever it goes down: during a termination the successor is
        # discarded (or cancelled in turn) - the run call still ends
        rfl = rng.choice(["asyncio", "asyncio", "trio"])
        payloads.append({"id": "resp", "flavour": rfl, "via": "queued", "steps": [["block"]], "cleanup_sync": 1, "cleanup_adopt": "resp"})
    for op in late:
        dscript += [["sleep", rng.choice([0.0, 0.0, 0.05, 0.3])], op]
    if rng.random() < 0.3:
        dscript += [["gc"]]
    trig = rng.choice(["fail-asyncio", "fail-trio", "fail-threading", "sigint", "stop", "shutdown", "shutdown-thread-payload", "ki-asyncio", "ki-threading", "fail-two", "exit-asyncio", "exit-threading", "exit-trio", "shutdown-trio-payload", "shutdown-asyncio-payload"])
    t = rng.choice([0.0, 0.0, 0.01, 0.2, 0.5, 1.0, 1.3])
    just_started = [p["id"] for p in payloads if p.get("via") in ("adopt", "service") and p["flavour"] != "threading"]
    if just_started and rng.random() < 0.5:
        dscript.append(["wait-marker", "start:" + rng.choice(just_started)])
    elif t:
        dscript.append(["sleep", t])
    failing = {"LookupError": ["raise", "LookupError"], "ret": ["return", "0"]}
    if trig.startswith("fail-") and trig != "fail-two":
        payloads.append({"id": "trig", "flavour": trig[5:], "via": "adopt", "steps": [rng.choice(list(failing.values()))], "trigger": True})
        dscript.append(["adopt", "trig"])
    elif trig == "fail-two":
        a, b = rng.choice(FL), rng.choice(FL)
        payloads.append({"id": "trig", "flavour": a, "via": "adopt", "steps": [["sleep", 0.1], ["raise", "KeyError"]], "trigger": True})
        payloads.append({"id": "trig2", "flavour": b, "via": "adopt", "steps": [["sleep", 0.1], ["return", "str"]], "trigger": True})
        dscript += [["adopt", "trig"], ["adopt", "trig2"]]
    elif trig.startswith("exit-"):
        # a payload that calls sys.exit(): a failure like any other as far as the other payloads are concerned
        payloads.append({"id": "trig", "flavour": trig[5:], "via": "adopt", "steps": [["raise", "SystemExit"]], "trigger": True})
        dscript.append(["adopt", "trig"])
    elif trig.startswith("ki-"):
        payloads.append({"id": "trig", "flavour": trig[3:], "via": "adopt", "steps": [["raise", "KeyboardInterrupt"]], "trigger": True})
        dscript.append(["adopt", "trig"])
    elif trig in ("shutdown-trio-payload", "shutdown-asyncio-payload"):
        # a coroutine payload stops the daemon the well-behaved way: shutdown() on a worker thread of its framework
        payloads.append({"id": "trig", "flavour": trig.split("-")[1], "via": "adopt", "steps": [["shutdown-in-thread"], ["block"]], "trigger": True, "cleanup_sync": 1})
        dscript.append(["adopt", "trig"])
    elif trig == "shutdown-thread-payload":
        payloads.append({"id": "trig", "flavour": "threading", "via": "adopt", "steps": [["shutdown"]], "trigger": True})
        dscript.append(["adopt", "trig"])
    else:
        dscript.append([trig])
    drivers = [{"id": "d0", "script": dscript}]
    if rng.random() < 0.5:
        # adoptions racing with the termination itself: a second thread keeps handing coroutine payloads to the
        # runtime from the moment the trigger fires until well after the run call has ended
        marker = {"sigint": "sigint-sent", "stop": "stop-call", "shutdown": "shutdown-call", "shutdown-trio-payload": "shutdown-call", "shutdown-asyncio-payload": "shutdown-call"}.get(trig, "start:trig")
        lscript = [["wait-marker", marker]]
        for i in range(rng.randint(2, 6)):
            pid = "late%d" % i
            payloads.append({"id": pid, "flavour": rng.choice(["asyncio", "asyncio", "trio"]), "via": "adopt", "steps": [["hb", 0.05, None]], "cleanup_sync": rng.choice([0, 1, 2]), "late": True})
            lscript += [["sleep", rng.choice([0.0, 0.0, 0.001, 0.01, 0.05, 0.1, 0.2])], ["adopt", pid]]
        drivers.append({"id": "dl", "script": lscript})
        if rng.random() < 0.6:
            # targeted alignment (DESIGN 3.5): a submitting thread is descheduled inside the registration path
            # right after the trigger and resumes only when the runtime's main coroutine winds down, so that its
            # hand-over lands in the last instants of the run call
            # (any line of the registration path; resumed as soon as the chosen function next makes progress, or a little later)
            knobs["stalls"] = [{"func": "register_payload", "nth": rng.randint(1, 14), "dur": 3.0, "after": True, "until": rng.choice(["_manage_runners", "_aclose_runners", "run"]), "k": rng.choice([1, 1, 2, 4])}]
    if rng.random() < 0.3:
        # execute() calls racing with the termination: another thread keeps executing coroutine payloads
        # from the moment the trigger fires until after the run call has ended.  Refusing them is fine;
        # one that does get started is a coroutine payload like any other
        marker = {"sigint": "sigint-sent", "stop": "stop-call", "shutdown": "shutdown-call", "shutdown-trio-payload": "shutdown-call", "shutdown-asyncio-payload": "shutdown-call"}.get(trig, "start:trig")
        xscript = [["wait-marker", marker]]
        for i in range(rng.randint(2, 5)):
            pid = "latex%d" % i
            payloads.append({"id": pid, "flavour": rng.choice(["asyncio", "asyncio", "trio"]), "via": "execute", "steps": rng.choice([[["hb", 0.05, None]], [["sleep", 0.3], ["return", "none"]]]), "cleanup_sync": rng.choice([0, 1, 2]), "late": True})
            xscript += [["sleep", rng.choice([0.0, 0.001, 0.01, 0.1, 0.3, 0.6, 1.0, 1.5])], ["execute", pid]]
        drivers.append({"id": "dx", "script": xscript})
    if rng.random() < 0.12:
        # a second failure in the last instants: a thread payload that was blocked until the termination began
        # ends a little later by raising - possibly sys.exit() or KeyboardInterrupt - while a trio payload is
        # still in its shielded clean-up.  Nobody is left to report it to; it changes nothing for the others
        marker = {"sigint": "sigint-sent", "stop": "stop-call", "shutdown": "shutdown-call", "shutdown-trio-payload": "shutdown-call", "shutdown-asyncio-payload": "shutdown-call"}.get(trig, "start:trig")
        payloads.append({"id": "lng", "flavour": "trio", "via": "queued", "steps": [["block"]], "cleanup_sync": 1, "cleanup_async": 2.0})
        for j in range(rng.choice([1, 1, 2])):
            payloads.append({"id": "lf%d" % j, "flavour": "threading", "via": rng.choice(["queued", "adopt"]), "steps": [["wait-marker", marker], ["sleep", rng.choice([0.0, 0.05, 0.3, 0.6, 1.0, 1.5])], ["raise", rng.choice(["SystemExit", "SystemExit", "KeyboardInterrupt", "LookupError"])]], "late_failure": True})
            if payloads[-1]["via"] == "adopt":
                drivers[0]["script"].insert(1, ["adopt", "lf%d" % j])
    knobs["horizon"] = 6.0 + knobs["accept_delay"] + 5.0 + sum(p.get("cleanup_async", 0) for p in payloads) + 3.0
    rng.shuffle(payloads)
    return {"prop": "C02", "seed": seed, "knobs": knobs, "payloads": payloads, "drivers": drivers, "trigger": trig, "grace": rng.choice([0.5, 2.5])}


def main(h):
    r = h.new_runner()
    h.pre_start(r)
    h.start_drivers()
    h.run_accept(r)
    time.sleep(h.sc.get("grace", 1.5))


def trigger_event(h, end_seq):
    for e in h.events:
        if e["seq"] >= end_seq:
            break
        if e["kind"] in ("sigint-sent", "stop-call", "shutdown-call"):
            return e
        if e["kind"] in ("raise", "return") and h.specs.get(e.get("pid"), {}).get("trigger") and not (e["kind"] == "return" and e.get("value") == "none"):
            return e
    return None


def check(h, reason):
    v = []
    ev = h.events
    specs = h.specs
    trig = h.sc.get("trigger", "?")
    ended = next((e for e in ev if e["kind"] == "accept-ended"), None)
    end_seq = ended["seq"] if ended else 10**12
    te = trigger_event(h, end_seq)
    started = {}
    finished = {}
    cancelled = {}
    for e in ev:
        pid = e.get("pid")
        if pid not in specs or specs[pid]["flavour"] == "threading":
            continue
        if e["kind"] == "start":
            started.setdefault(pid, e)
        elif e["kind"] == "finished":
            finished.setdefault(pid, e)
        elif e["kind"] == "cancelled":
            cancelled.setdefault(pid, e)
    running_at_trigger = [pid for pid, s in started.items() if te is not None and s["seq"] < te["seq"] and (pid not in finished or finished[pid]["seq"] > te["seq"])]
    shape = ["C02", trig, sorted((specs[p]["flavour"], specs[p]["steps"][0][0], bool(specs[p].get("cleanup_async")), specs[p].get("via")) for p in running_at_trigger), ended["how"] if ended else None]
    if te is None:
        return v, shape, False
    bound = liveness_bound(h)
    if ended is None:
        if S.now - te["t"] > bound or reason == "deadlock":
            # a distinct history (known finding, same root cause as C01's): two terminations, the later one a
            # loop-killing one (a payload raising SystemExit / KeyboardInterrupt, or a SIGINT) while the first
            # one's cleanup was under way, and an asyncio payload that swallowed the last cancellation it got
            terms = [e for e in ev if e["kind"] in ("sigint-sent", "stop-call", "shutdown-call") or (e["kind"] == "raise" and e.get("pid") in specs) or (e["kind"] == "return" and e.get("value") != "none" and specs.get(e.get("pid"), {}).get("trigger"))]
            killers = [e for e in terms if e["kind"] == "sigint-sent" or e.get("exc") in ("SystemExit", "KeyboardInterrupt")]
            swallowing = sorted({e["pid"] for e in ev if e["kind"] == "swallowed-cancel" and specs.get(e["pid"], {}).get("flavour") == "asyncio"} - set(finished))
            # (the order in which the two were *noticed* by the runtime is not the order of these events when they
            # happen within the same instant: a SIGINT is acted on at the main thread's next bytecode boundary)
            if swallowing and len(terms) >= 2 and killers:
                v.append({"key": "C02/not-ended/two-terminations/swallowed-last-cancel", "msg": "terminations %r; asyncio payload(s) %r swallowed the last cancellation sent to them and were never cancelled again: the run call had not ended %.2f virtual seconds after the trigger (%s)" % ([(e["kind"], e.get("pid"), e.get("exc") or e.get("value")) for e in terms], swallowing, S.now - te["t"], reason)})
                return v, shape, True
            v.append({"key": "C02/not-ended/%s" % trig, "msg": "trigger %s at t=%.4f but the run call had not ended %.2f virtual seconds later (%s); thread payloads blocked: %d" % (trig, te["t"], S.now - te["t"], reason, sum(1 for e in ev if e["kind"] == "blocking" and specs[e["pid"]]["flavour"] == "threading"))})
        return v, shape, bool(running_at_trigger)
    if ended["t"] - te["t"] > bound:
        v.append({"key": "C02/late-end/%s" % trig, "msg": "run call ended %.2fs after the trigger (bound %.2f)" % (ended["t"] - te["t"], bound)})
    for pid, s in sorted(started.items()):
        fl = specs[pid]["flavour"]
        if s["seq"] > end_seq:
            v.append({"key": "C02/start-after-end/%s/%s" % (fl, trig), "msg": "coroutine payload %s started after the run call had ended" % pid})
            continue
        f = finished.get(pid)
        c = cancelled.get(pid)
        if f is None or f["seq"] > end_seq:
            if c is None or c["seq"] > end_seq:
                v.append({"key": "C02/not-cancelled/%s/%s" % (fl, trig), "msg": "%s payload %s (started seq %d, via %s) was still running when the run call ended (seq %d) and had not been cancelled" % (fl, pid, s["seq"], specs[pid].get("via"), end_seq)})
            else:
                v.append({"key": "C02/cleanup-unfinished/%s/%s" % (fl, trig), "msg": "%s payload %s was cancelled but its cleanup (sync=%s, shielded async=%s) had not finished when the run call ended" % (fl, pid, specs[pid].get("cleanup_sync", 0), specs[pid].get("cleanup_async", 0))})
        elif c is not None and c.get("exc") != CANCEL_NAME[fl]:
            v.append({"key": "C02/wrong-cancel-type/%s/%s" % (fl, trig), "msg": "%s payload %s saw %s" % (fl, pid, c.get("exc"))})
    for e in ev:
        if e["kind"] == "destroyed" and e.get("pid") in specs and specs[e["pid"]]["flavour"] != "threading":
            fl = specs[e["pid"]]["flavour"]
            v.append({"key": "C02/destroyed-not-cancelled/%s" % fl, "msg": "%s payload %s (steps %r) was dropped and finalised by the garbage collector at t=%.4f while it was still running: it was never cancelled through %s" % (fl, e["pid"], specs[e["pid"]]["steps"], e["t"], CANCEL_NAME[fl])})
            break
    for e in ev:
        if e["seq"] > end_seq and e.get("pid") in specs and specs[e["pid"]]["flavour"] != "threading" and e["kind"] in ("step", "hb", "cleanup-step", "finished", "cancelled", "cleanup-async-done", "spinning", "blocking"):
            fl = specs[e["pid"]]["flavour"]
            v.append({"key": "C02/step-after-end/%s/%s" % (fl, trig), "msg": "%s payload %s executed '%s' (seq %d, t=%.4f) after the run call ended (seq %d, t=%.4f)" % (fl, e["pid"], e["kind"], e["seq"], e["t"], end_seq, ended["t"])})
            break
    # de-duplicate keys
    seen, out = set(), []
    for x in v:
        if x["key"] not in seen:
            seen.add(x["key"])
            out.append(x)
    return out, shape, bool(running_at_trigger)
