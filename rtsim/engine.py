"""rtsim engine: one forked child per run (perfect isolation, no leaked threads)."""
from . import patches  # noqa: F401  (must be first: applies the seams)

import faulthandler
import gc
import importlib
import json
import logging
import os
import random
import select
import signal
import sys
import traceback

from .sched import S, make_strategy, Abort
from .harness import Harness, LogCapture
from simkit.util import Tape, digest

_MODULES = {"C01": "c01", "C02": "c02", "C03": "c03", "C10": "c10", "C11": "c11", "C12": "c12", "C13": "c13", "SMOKE": "smoke"}
_loaded = {}
WATCHDOG_S = int(os.environ.get("VERIF_WATCHDOG_S", "90"))


def _mod(prop):
    if prop not in _loaded:
        _loaded[prop] = importlib.import_module("rtsim." + _MODULES[prop])
    return _loaded[prop]


def gen(prop, seed, tier):
    return _mod(prop).gen(seed, tier)


def preload():
    for name in _MODULES.values():
        try:
            importlib.import_module("rtsim." + name)
        except ModuleNotFoundError:
            pass


def execute(prop, scenario, tape):
    """Run (scenario, tape) in a forked child and return its result dict."""
    mod = _mod(prop)
    rfd, wfd = os.pipe()
    sys.stdout.flush()
    sys.stderr.flush()
    pid = None
    for attempt in range(40):
        try:
            pid = os.fork()
            break
        except BlockingIOError:
            # EAGAIN: the machine is out of process slots for a moment (many checks running side by side)
            import time as _t

            _t.sleep(0.05 * (attempt + 1))
    if pid is None:
        os.close(rfd)
        os.close(wfd)
        return {"harness_error": "os.fork failed repeatedly with EAGAIN"}
    if pid == 0:
        code = 0
        try:
            os.close(rfd)
            _child(mod, prop, scenario, tape, wfd)
        except BaseException:
            try:
                msg = json.dumps({"harness_error": "child crashed: " + traceback.format_exc()[-3000:]})
                os.write(wfd, msg.encode())
            except BaseException:
                pass
            code = 3
        finally:
            os._exit(code)
    os.close(wfd)
    chunks = []
    timed_out = False
    while True:
        r, _, _ = select.select([rfd], [], [], WATCHDOG_S + 15)
        if not r:
            timed_out = True
            break
        data = os.read(rfd, 1 << 16)
        if not data:
            break
        chunks.append(data)
    os.close(rfd)
    if timed_out:
        try:
            os.kill(pid, signal.SIGKILL)
        except ProcessLookupError:
            pass
    _, status = os.waitpid(pid, 0)
    raw = b"".join(chunks)
    if timed_out:
        return {"harness_error": "watchdog: child produced no result within %ds" % (WATCHDOG_S + 15)}
    if not raw:
        return {"harness_error": "child exited with status %r and no result (wall-clock watchdog or crash)" % (status,)}
    try:
        return json.loads(raw.decode())
    except ValueError:
        return {"harness_error": "garbled child result: %r" % raw[:300]}


def _write_all(fd, data):
    view = memoryview(data)
    while view:
        n = os.write(fd, view)
        view = view[n:]


def _child(mod, prop, scenario, tape_values, wfd):
    faulthandler.dump_traceback_later(WATCHDOG_S, exit=True)
    if not os.environ.get("VERIF_DEBUG"):
        # "Exception in thread ..." reports of payload threads failing after the loop closed, warnings of
        # never-retrieved futures etc. are not protocol: keep them off the worker's stderr
        devnull = os.open(os.devnull, os.O_WRONLY)
        keep = os.dup(2)
        faulthandler.dump_traceback_later(WATCHDOG_S, exit=True, file=os.fdopen(keep, "w"))
        os.dup2(devnull, 2)
    gc.disable()
    # the inherited SIGINT disposition must not matter (a check started in the background of a
    # non-interactive shell inherits SIG_IGN, and asyncio.run then installs no handler at all)
    signal.signal(signal.SIGINT, signal.default_int_handler)
    knobs = scenario.get("knobs", {})
    seed = scenario.get("seed", 0)
    patches._hash_state["rng"] = random.Random(knobs.get("hash_seed", seed) ^ 0xC0FFEE)
    S.reset()
    S.tape = Tape(tape_values, seed=seed ^ 0x7A9E)
    S.delta = knobs.get("delta", 1e-4)
    S.horizon = knobs.get("horizon", 600.0)
    S.step_cap = knobs.get("step_cap", 300000)
    S.stalls = list(knobs.get("stalls", []))
    S.slow_starts = list(knobs.get("slow_starts", []))
    strategy = make_strategy(knobs.get("strategy", {}), random.Random(seed ^ 0x51A7))
    S.strategy = strategy
    h = Harness(scenario)
    cap = LogCapture(h)
    lg = logging.getLogger("cobald")
    lg.setLevel(logging.DEBUG)
    lg.addHandler(cap)
    lg.propagate = False
    logging.getLogger("asyncio").addHandler(cap)
    logging.getLogger("asyncio").propagate = False
    done = []

    def finalize(reason):
        if done:
            return
        done.append(reason)
        S.active = False
        dump = S.thread_dump() if reason != "main-done" else []
        h.thread_dump = dump
        if S.harness_failure:
            # resource exhaustion of the machine (not modelled): never a verdict
            _write_all(wfd, json.dumps({"harness_error": "resource exhaustion inside the run: %s" % S.harness_failure}).encode())
            os.close(wfd)
            os._exit(0)
        try:
            h.ev("end-of-run", reason=reason)
            violations, shape, nontrivial = mod.check(h, reason)
            if hasattr(mod, "cleanup"):
                mod.cleanup(h)
            tape = S.tape.recorded()
            probes = dict(S.probes)
            probes["end:" + reason] = 1
            res = {
                "violations": violations,
                "digest": digest([h.events, S.trace_hash]),
                "tape": tape,
                "stats": {
                    "steps": S.steps,
                    "vsec": round(S.now, 6),
                    "faults": S.faults,
                    "probes": probes,
                    "strategy": strategy.name,
                    "switches": S.switches,
                    "threads": len(S.threads),
                    "switch_pairs": ["%s|%s|%s" % p for p in sorted(S.switch_pairs)][:300],
                },
                "sig": digest([shape, S.trace_hash]),
                "nontrivial": bool(nontrivial),
                "events": h.events[-400:] if violations else h.events[-40:],
                "log_tail": h.log_records[-30:] if violations else [],
                "thread_dump": dump if violations else [],
            }
        except BaseException:
            res = {"harness_error": "finalize failed: " + traceback.format_exc()[-3000:]}
        _write_all(wfd, json.dumps(res, default=repr).encode())
        os.close(wfd)
        os._exit(0)

    S.on_abort = finalize
    main = S.begin("main")
    strategy.on_new_thread(S, main)
    try:
        mod.main(h)
    except Abort:
        pass
    finalize("main-done")
