"""C10 — execute hands the payload's outcome to the caller and leaves the runtime alone."""
import random
import time

from .sched import S
from .harness import EXCEPTION_KINDS, FALSY_VALUES, TRUTHY_VALUES, LAZY_VALUES
from .common import base_knobs, FL
from .c03 import ARGS, KWARGS


def gen(seed, tier):
    rng = random.Random(seed)
    knobs = base_knobs(rng, tier)
    payloads = []
    # bystanders with heartbeats, one per flavour at least
    for i, fl in enumerate(FL + [rng.choice(FL) for _ in range(rng.randint(0, 3))]):
        payloads.append({"id": "b%d" % i, "flavour": fl, "via": rng.choice(["queued", "service-pre"]), "steps": [["hb", 0.25, None]], "bystander": True})
    # who executes: outside thread always; plus thread payloads; plus coroutine payloads of ONE flavour
    co_flavour = rng.choice(["asyncio", "trio", None])
    ncalls = rng.randint(1, 8)
    dscript = [["wait-running"]]
    callers = {}
    for i in range(ncalls):
        target = rng.choice(FL)
        outcome = rng.choice(["none", "falsy", "truthy", "raise", "raise"])
        if outcome == "none":
            last = ["return", "none"]
        elif outcome == "falsy":
            last = ["return", rng.choice(FALSY_VALUES)]
        elif outcome == "truthy":
            last = ["return", rng.choice(TRUTHY_VALUES + LAZY_VALUES)]
        else:
            # (StopIteration only for thread payloads: raised inside a coroutine, Python itself turns it into a RuntimeError)
            last = ["raise", rng.choice(EXCEPTION_KINDS + (["StopIteration", "StopIteration"] if target == "threading" else []))]
        steps = ([["sleep", rng.choice([0.01, 0.1, 0.3])]] if rng.random() < 0.5 else []) + ([["spin", 2]] if rng.random() < 0.2 else []) + [last]
        pid = "x%d" % i
        payloads.append({"id": pid, "flavour": target, "via": "execute", "steps": steps, "args": rng.choice(ARGS), "kwargs": rng.choice(KWARGS)})
        if rng.random() < 0.15:
            payloads[-1]["times"] = rng.choice([2, 3])  # the same callable object executed again: it has to run again
        if rng.random() < 0.3:
            # any callable will do: a partial, a bound method, a callable instance, a plain callable
            # handing back the coroutine
            payloads[-1]["callable"] = rng.choice(["partial", "partial-args", "method", "instance", "unhashable-instance", "module-none"] + (["lambda"] if target != "threading" else []))
        ctx = rng.choice(["driver", "driver", "thread-payload", "coroutine-payload"])
        if ctx == "coroutine-payload" and (co_flavour is None or co_flavour == target):
            ctx = "driver"
        if ctx == "driver":
            dscript += [["sleep", rng.choice([0.0, 0.0, 0.1, 0.3])], ["execute", pid]]
        else:
            cfl = "threading" if ctx == "thread-payload" else co_flavour
            cid = "caller-%s" % cfl
            if cid not in callers:
                via = rng.choice(["queued", "adopt"])
                callers[cid] = {"id": cid, "flavour": cfl, "via": via, "steps": [], "caller": True}
            callers[cid]["steps"] += [["sleep", rng.choice([0.0, 0.1, 0.3])], ["execute", pid]]
    if rng.random() < 0.2:
        # nested: an executed payload executes a payload of another flavour, which does the same again
        # (a coroutine flavour at most once per chain: its loop thread is blocked by the outer call)
        # and, as everywhere in this generator, coroutine payloads of one flavour only act as callers:
        # blocking calls in both directions between the two loops wait for each other by construction)
        callers_ok = ["threading"] + ([co_flavour] if co_flavour else [])
        chain = [rng.choice(callers_ok)]
        chain.append(rng.choice([f for f in callers_ok if f == "threading" or f not in chain]))
        chain.append(rng.choice([f for f in FL if f == "threading" or f not in chain]))
        for lvl, cfl_ in enumerate(chain):
            last = rng.choice([["return", "none"], ["return", rng.choice(FALSY_VALUES + TRUTHY_VALUES)], ["raise", rng.choice(EXCEPTION_KINDS)]])
            inner = [["execute", "n%d" % (lvl + 1)]] if lvl + 1 < len(chain) else []
            payloads.append({"id": "n%d" % lvl, "flavour": cfl_, "via": "execute", "steps": inner + [last], "args": rng.choice(ARGS), "kwargs": rng.choice(KWARGS)})
        dscript += [["sleep", rng.choice([0.0, 0.2])], ["execute", "n0"]]
    for c in callers.values():
        c["steps"] += [["mark", "done-" + c["id"]], ["hb", 0.25, None]]
        payloads.append(c)
        if c["via"] == "adopt":
            dscript.insert(1, ["adopt", c["id"]])
    for c in callers.values():
        dscript.append(["wait-marker", "mark:done-" + c["id"]])
    payloads.append({"id": "late", "flavour": rng.choice(FL), "via": "adopt", "steps": [["hb", 0.25, None]], "bystander": True})
    dscript += [["mark", "calls-done"], ["adopt", "late"], ["sleep", 1.0], ["mark", "before-shutdown"], ["shutdown"]]
    knobs["horizon"] = 60.0
    rng.shuffle(payloads)
    return {"prop": "C10", "seed": seed, "knobs": knobs, "payloads": payloads, "drivers": [{"id": "d0", "script": dscript}], "grace": 0.5}


def main(h):
    r = h.new_runner()
    h.pre_start(r)
    h.start_drivers()
    h.run_accept(r)
    time.sleep(h.sc.get("grace", 0.5))


def check(h, reason):
    v = []

    def V(key, msg):
        if not any(x["key"] == key for x in v):
            v.append({"key": key, "msg": msg})

    ev = h.events
    specs = h.specs
    ended = next((e for e in ev if e["kind"] == "accept-ended"), None)
    mark = next((e for e in ev if e["kind"] == "mark:before-shutdown"), None)
    calls_done = next((e for e in ev if e["kind"] == "mark:calls-done"), None)
    m_seq = mark["seq"] if mark else 10**12
    aio_ctx = {(e["ctx"]["loop"], e["ctx"]["sid"]) for e in ev if e["kind"] == "start" and specs[e["pid"]]["flavour"] == "asyncio" and e.get("mode") != "execute"}
    trio_ctx = {(e["ctx"]["trio"], e["ctx"]["sid"]) for e in ev if e["kind"] == "start" and specs[e["pid"]]["flavour"] == "trio" and e.get("mode") != "execute"}
    shape_calls = []
    ncalls = {}
    for e in ev:
        if e["kind"] == "execute-call":
            ncalls[e["pid"]] = ncalls.get(e["pid"], 0) + 1
    judged = set()
    for rec in h.exec_results:
        pid = rec["pid"]
        spec = specs[pid]
        fl = spec["flavour"]
        by = rec["by"]
        byfl = specs[by]["flavour"] if by in specs else "outside"
        last = spec["steps"][-1]
        want = "raise:" + last[1] if last[0] == "raise" else "ret:" + last[1]
        tag = "%s/by-%s/%s" % (fl, byfl, want)
        shape_calls.append(tag)
        starts = [e for e in ev if e["kind"] == "start" and e["pid"] == pid]
        done = sum(1 for x in h.exec_results if x["pid"] == pid)
        if len(starts) != done:
            V("C10/run-count/" + tag, "payload %s was executed %d time(s) and ran %d time(s)" % (pid, done, len(starts)))
            continue
        if pid in judged and spec.get("times"):
            continue
        judged.add(pid)
        s = starts[-1]
        rec = [x for x in h.exec_results if x["pid"] == pid][-1]  # identity is judged on the last call (returned[pid] holds its object)
        if not s.get("args_ok"):
            V("C10/wrong-arguments/" + tag, "payload %s received args=%r kwargs=%r, supplied %r %r" % (pid, s["args"], s["kwargs"], spec.get("args"), spec.get("kwargs")))
        ctx = s["ctx"]
        if fl == "asyncio" and (ctx["loop"] is None or (aio_ctx and (ctx["loop"], ctx["sid"]) not in aio_ctx) or ctx["sid"] != h.accept_sid):
            V("C10/wrong-runner/asyncio/by-%s" % byfl, "executed asyncio payload %s ran in context %r; the runtime's asyncio payloads run in %r" % (pid, ctx, sorted(aio_ctx)))
        if fl == "trio" and (ctx["trio"] is None or (trio_ctx and (ctx["trio"], ctx["sid"]) not in trio_ctx)):
            V("C10/wrong-runner/trio/by-%s" % byfl, "executed trio payload %s ran in context %r; the runtime's trio payloads run in %r" % (pid, ctx, sorted(trio_ctx)))
        if last[0] == "raise":
            if rec.get("raised") is None:
                V("C10/exception-lost/" + tag, "payload %s raised %s but execute returned %r" % (pid, last[1], rec.get("value")))
            elif not rec.get("same"):
                V("C10/exception-identity/" + tag, "payload %s raised %s; the caller caught %s (%s) which is not the same object" % (pid, last[1], rec.get("raised"), rec.get("text")))
        else:
            if rec.get("raised") is not None:
                V("C10/unexpected-raise/" + tag, "payload %s returned %s but execute raised %s: %s" % (pid, last[1], rec.get("raised"), rec.get("text")))
            elif not rec.get("same"):
                V("C10/result-identity/" + tag, "payload %s returned %s; the caller received %r which is not the same object" % (pid, last[1], rec.get("value")))
    pending = [e for e in ev if e["kind"] == "execute-call" and not any(x["kind"] in ("execute-returned", "execute-raised") and x["pid"] == e["pid"] for x in ev)]
    shape = ["C10", sorted(shape_calls), len(specs)]
    if pending and reason in ("horizon", "deadlock", "step-cap"):
        p = pending[0]
        stacks = [" ".join(t.get("stack", [])) for t in getattr(h, "thread_dump", [])]
        loop_in_unqueue = any("_unqueue_payloads" in s and "from_thread_run" in s for s in stacks)
        trio_waits_for_loop = any("trio_runner.py" in s and "_monitor_payload" in s and "asyncio_runner.py" in s and "run_payload" in s for s in stacks)
        if loop_in_unqueue and trio_waits_for_loop:
            V(
                "C10/execute-deadlock/startup-unqueue",
                "deadlock: the asyncio loop thread is flushing the pre-start queue into the trio runner (blocking trio.from_thread.run in MetaRunner._unqueue_payloads) while a trio payload "
                "that already started is inside execute(..., flavour=asyncio) waiting for that loop; pending executes: %r" % [(x["pid"], x["by"]) for x in pending],
            )
        else:
            byfl = specs[p["by"]]["flavour"] if p["by"] in specs else "outside"
            V("C10/execute-never-returned/%s/by-%s" % (specs[p["pid"]]["flavour"], byfl), "execute of %s by %s never returned (%s)" % (p["pid"], p["by"], reason))
        return v, shape, bool(h.exec_results)
    # the runtime is left alone
    if ended is not None and ended["seq"] < m_seq:
        V("C10/runtime-ended/" + (ended.get("type") or "returned"), "the run call ended (%s %s, cause %r) before the harness asked it to" % (ended["how"], ended.get("type"), ended.get("cause_types")))
    elif ended is not None and ended["how"] == "raised":
        V("C10/runtime-failed/" + str(ended.get("type")), "after shutdown the run call raised %s (cause %r): an execute outcome was counted as a background failure" % (ended.get("type"), ended.get("cause_types")))
    early_cancel = next((e for e in ev if e["kind"] == "cancelled" and e["seq"] < m_seq), None)
    if early_cancel is not None:
        V("C10/bystander-cancelled/%s" % specs[early_cancel["pid"]]["flavour"], "payload %s was cancelled (seq %d) although nobody stopped the runtime" % (early_cancel["pid"], early_cancel["seq"]))
    if mark is not None and calls_done is not None:
        for pid, spec in sorted(specs.items()):
            if not spec.get("bystander"):
                continue
            hbs = [e for e in ev if e["kind"] == "hb" and e["pid"] == pid and calls_done["seq"] < e["seq"] < m_seq]
            if not hbs:
                V("C10/bystander-dead/%s%s" % (spec["flavour"], "/late-adopt" if pid == "late" else ""), "bystander %s (%s) showed no heartbeat between the last execute and the shutdown (%.2fs)" % (pid, spec["flavour"], mark["t"] - calls_done["t"]))
    return v, shape, bool(h.exec_results)
