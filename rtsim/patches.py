"""Seams of rtsim.  Imported (and applied) before asyncio, trio, logging,
concurrent.futures and cobald are imported; nothing in /repo changes.
"""
import sys

assert "asyncio" not in sys.modules and "trio" not in sys.modules and "cobald" not in sys.modules, "rtsim.patches must be imported first"

import _thread  # noqa: E402
import itertools  # noqa: E402
import os  # noqa: E402
import time  # noqa: E402
import zlib  # noqa: E402
import threading  # noqa: E402
import queue  # noqa: E402

from .sched import S, IO, DONE, NEW, _real_allocate  # noqa: E402
from . import sched as _sched  # noqa: E402

_real_sleep = time.sleep
_real_monotonic = time.monotonic


# ---------------------------------------------------------------------------
# 1. the innermost lock
# ---------------------------------------------------------------------------
class SimLock:
    """Replacement of _thread.lock. Outside a simulation it is a plain flag
    (the worker parent is single threaded)."""

    __slots__ = ("_locked", "_waiters", "__weakref__")
    __module__ = "_thread"  # trio checks where its lock classes come from

    def __init__(self):
        self._locked = False
        self._waiters = []

    def acquire(self, blocking=True, timeout=-1):
        cur = S.current()
        if cur is None or not S.active:
            if not self._locked:
                self._locked = True
                return True
            if not blocking or timeout == 0:
                return False
            if S.aborting or not S.active:
                # run is being torn down: park this OS thread for good
                while True:
                    _real_sleep(3600)
            raise RuntimeError("SimLock would block outside the simulation")
        S.yield_point(("acq", sys._getframe(1).f_code.co_name))
        if not self._locked:
            self._locked = True
            return True
        if not blocking or timeout == 0:
            return False
        deadline = None if (timeout is None or timeout < 0) else S.now + timeout
        while True:
            self._waiters.append(cur)
            S.block(cur, self, deadline)
            try:
                self._waiters.remove(cur)
            except ValueError:
                pass
            if not self._locked:
                self._locked = True
                return True
            if deadline is not None and S.now >= deadline:
                return False

    __enter__ = acquire

    def release(self):
        if not self._locked:
            raise RuntimeError("release unlocked lock")
        self._locked = False
        if self._waiters:
            for w in self._waiters:
                S.wake(w, "lock")
            del self._waiters[:]
        if S.active:
            S.yield_point(("rel", sys._getframe(1).f_code.co_name))

    def __exit__(self, *exc):
        self.release()

    def locked(self):
        return self._locked

    def _at_fork_reinit(self):
        self._locked = False
        self._waiters = []

    def __repr__(self):
        return "<SimLock %s>" % ("locked" if self._locked else "unlocked")


def _allocate_lock():
    return SimLock()


threading._allocate_lock = _allocate_lock
threading.Lock = _allocate_lock
threading._CRLock = None  # RLock() now returns the pure-Python _RLock on top of SimLock
threading._PyRLock.__module__ = "_thread"
threading._active_limbo_lock = threading.RLock()
threading._shutdown_locks_lock = _allocate_lock()
queue.SimpleQueue = queue._PySimpleQueue


# ---------------------------------------------------------------------------
# 2. thread birth / death / join
# ---------------------------------------------------------------------------
_hash_counter = itertools.count(1)
_hash_state = {"rng": None}


def seeded_hash():
    rng = _hash_state["rng"]
    if rng is None:
        return next(_hash_counter)
    return rng.getrandbits(40)


def _thread_hash(self):
    try:
        return self.__dict__["_sim_hash"]
    except KeyError:
        h = self.__dict__["_sim_hash"] = seeded_hash()
        return h


threading.Thread.__hash__ = _thread_hash

_orig_start = threading.Thread.start
_orig_start_new_thread = threading._start_new_thread
_orig_bootstrap_inner = threading.Thread._bootstrap_inner
_orig_wait_tstate = threading.Thread._wait_for_tstate_lock


def _start(self):
    if S.active and S.current() is not None:
        self._sim = S.new_thread(self, "%s#%d" % (_thread_role(self), len(S.threads)))
        try:
            return _orig_start(self)
        except RuntimeError as err:
            if "can't start new thread" in str(err):
                # the machine ran out of threads (many checks side by side): resource exhaustion is not
                # modelled and must never turn into a verdict
                S.harness_failure = str(err)
                S.abort("os-thread-limit")
            raise
    return _orig_start(self)


def _thread_role(t):
    target = getattr(t, "_target", None)
    name = getattr(target, "__qualname__", None) or getattr(target, "__name__", None) or type(t).__name__
    return name


def _start_new_thread(fn, args, kwargs={}):
    ident = _orig_start_new_thread(fn, args, kwargs)
    owner = getattr(fn, "__self__", None)
    st = getattr(owner, "_sim", None)
    if st is not None:
        S.thread_started(st)
    return ident


def _bootstrap_inner(self):
    st = getattr(self, "_sim", None)
    if st is None:
        return _orig_bootstrap_inner(self)
    S.child_enter(st)
    try:
        if S.slow_starts:
            try:
                S.maybe_slow_start(st)
            except _sched.Abort:
                return  # the run ended while this thread was still waiting for its first slice
        _orig_bootstrap_inner(self)
    finally:
        S.thread_exit(st)


def _wait_for_tstate_lock(self, block=True, timeout=-1):
    st = getattr(self, "_sim", None)
    cur = S.current()
    if st is None or cur is None or not S.active:
        return _orig_wait_tstate(self, block, timeout)
    lock = self._tstate_lock
    if lock is None:
        return
    S.yield_point(("join", "tstate"))
    if st.state != DONE:
        if not block:
            return
        deadline = None if (timeout is None or timeout < 0) else S.now + timeout
        if not S.wait_thread_exit(cur, st, deadline):
            return
    # done in the simulation; the OS thread is on its way out (it needs no baton)
    lock.acquire()
    lock.release()
    self._stop()


threading.Thread.start = _start
threading._start_new_thread = _start_new_thread
threading.Thread._bootstrap_inner = _bootstrap_inner
threading.Thread._wait_for_tstate_lock = _wait_for_tstate_lock


# ---------------------------------------------------------------------------
# 3. time
# ---------------------------------------------------------------------------
def _sim_sleep(seconds):
    if S.active and S.current() is not None:
        S.sleep(seconds)
    else:
        _real_sleep(seconds)


def _sim_monotonic():
    if S.active:
        return S.now
    return _real_monotonic()


time.sleep = _sim_sleep
time.monotonic = _sim_monotonic
threading._time = _sim_monotonic


# ---------------------------------------------------------------------------
# 4. asyncio / trio / cobald (imported only now)
# ---------------------------------------------------------------------------
import logging  # noqa: E402,F401
import selectors  # noqa: E402
import concurrent.futures  # noqa: E402,F401
import concurrent.futures.thread  # noqa: E402,F401
import asyncio  # noqa: E402
import asyncio.selector_events  # noqa: E402


class SimSelector:
    """Wraps the real selector: non-blocking real polls, idle waits in the scheduler."""

    def __init__(self, real):
        self._real = real

    def select(self, timeout=None):
        cur = S.current()
        if cur is None or not S.active:
            return self._real.select(timeout)
        events = self._real.select(0)
        if events or (timeout is not None and timeout <= 0):
            S.busy_poll(cur, "asyncio")
            return events
        deadline = None if timeout is None else S.now + timeout
        while True:
            S.block(cur, IO, deadline)
            events = self._real.select(0)
            if events:
                return events
            if deadline is not None and S.now >= deadline:
                return []

    def __getattr__(self, name):
        return getattr(self._real, name)


class SimTask(asyncio.Task):
    __slots__ = ("_sim_hash",)

    def __hash__(self):
        try:
            return self._sim_hash
        except AttributeError:
            h = self._sim_hash = seeded_hash()
            return h


def _task_factory(loop, coro, **kwargs):
    return SimTask(coro, loop=loop, **kwargs)


# code under test that builds tasks without the loop's factory (an eager task factory,
# Task(...) called directly) must get tasks with the seeded hash as well: runners keep
# tasks in sets, and an address-based hash makes their iteration order irreproducible
asyncio.Task = asyncio.tasks.Task = SimTask
if hasattr(asyncio, "create_eager_task_factory"):
    asyncio.eager_task_factory = asyncio.tasks.eager_task_factory = asyncio.create_eager_task_factory(SimTask)


class SimLoop(asyncio.SelectorEventLoop):
    def __init__(self):
        super().__init__(selector=SimSelector(selectors.DefaultSelector()))
        self.set_task_factory(_task_factory)

    def time(self):
        return S.now if S.active else super().time()

    def _write_to_self(self):
        super()._write_to_self()
        if S.active:
            S.notify_io()


class SimPolicy(asyncio.DefaultEventLoopPolicy):
    _loop_factory = SimLoop


asyncio.set_event_loop_policy(SimPolicy())

import trio  # noqa: E402
import trio.abc  # noqa: E402
import trio._core._run as _trio_run  # noqa: E402
import trio._core._io_epoll as _trio_epoll  # noqa: E402
import trio._core._wakeup_socketpair as _trio_wsp  # noqa: E402


class SimClock(trio.abc.Clock):
    def start_clock(self):
        pass

    def current_time(self):
        return S.now

    def deadline_to_sleep_time(self, deadline):
        return deadline - S.now


_orig_trio_run = trio.run


def _sim_trio_run(*args, **kwargs):
    if S.active:
        kwargs.setdefault("clock", SimClock())
    return _orig_trio_run(*args, **kwargs)


trio.run = _sim_trio_run
_trio_run.run = _sim_trio_run if getattr(_trio_run, "run", None) is _orig_trio_run else _trio_run.run

_orig_get_events = _trio_epoll.EpollIOManager.get_events


def _sim_get_events(self, timeout):
    cur = S.current()
    if cur is None or not S.active:
        return _orig_get_events(self, timeout)
    events = _orig_get_events(self, 0)
    if events or timeout <= 0:
        S.busy_poll(cur, "trio")
        return events
    deadline = S.now + timeout
    while True:
        S.block(cur, IO, deadline)
        events = _orig_get_events(self, 0)
        if events:
            return events
        if S.now >= deadline:
            return []


_trio_epoll.EpollIOManager.get_events = _sim_get_events

_orig_wakeup = _trio_wsp.WakeupSocketpair.wakeup_thread_and_signal_safe


def _sim_wakeup(self):
    _orig_wakeup(self)
    if S.active:
        S.notify_io()


_trio_wsp.WakeupSocketpair.wakeup_thread_and_signal_safe = _sim_wakeup


class TapeShuffler:
    """Stands in for trio's module level `_r`."""

    def shuffle(self, batch):
        n = len(batch)
        if n < 2 or not S.active or S.tape is None:
            return
        for i in range(n - 1, 0, -1):
            j = S.tape.take(i + 1)
            batch[i], batch[j] = batch[j], batch[i]

    def random(self):
        return 0.0


_trio_run._ALLOW_DETERMINISTIC_SCHEDULING = True
_trio_run._r = TapeShuffler()

from simkit.util import setup_cobald_path  # noqa: E402

COBALD_SRC = setup_cobald_path()

import cobald.daemon  # noqa: E402,F401
import cobald.daemon.runners.service as _service  # noqa: E402
import cobald.daemon.runners.meta_runner  # noqa: E402,F401
import cobald.daemon.core.main  # noqa: E402,F401


def _unit_hash(self):
    try:
        return self.__dict__["_sim_hash"]
    except KeyError:
        h = self.__dict__["_sim_hash"] = seeded_hash()
        return h


_service.ServiceUnit.__hash__ = _unit_hash


# ---------------------------------------------------------------------------
# 5. line-level pre-emption in cobald's runtime code
# ---------------------------------------------------------------------------
_TOOL = sys.monitoring.PROFILER_ID
_monitored = []


def _on_line(code, line):
    if S.active:
        S.yield_point(("L", code.co_name, line))


def _collect_codes(obj, seen, out, modname):
    import types

    if isinstance(obj, types.FunctionType):
        if obj.__module__ == modname:
            _collect_code(obj.__code__, seen, out)
        if hasattr(obj, "__wrapped__"):
            _collect_codes(obj.__wrapped__, seen, out, modname)
    elif isinstance(obj, (classmethod, staticmethod)):
        _collect_codes(obj.__func__, seen, out, modname)
    elif isinstance(obj, property):
        for f in (obj.fget, obj.fset, obj.fdel):
            if f is not None:
                _collect_codes(f, seen, out, modname)
    elif isinstance(obj, type):
        if obj.__module__ == modname and id(obj) not in seen:
            seen.add(id(obj))
            for v in vars(obj).values():
                _collect_codes(v, seen, out, modname)
    elif hasattr(obj, "__wrapped__"):
        _collect_codes(obj.__wrapped__, seen, out, modname)


def _collect_code(code, seen, out):
    import types

    if id(code) in seen:
        return
    seen.add(id(code))
    out.append(code)
    for c in code.co_consts:
        if isinstance(c, types.CodeType):
            _collect_code(c, seen, out)


def monitor_module(mod):
    seen, out = set(), []
    for v in list(vars(mod).values()):
        _collect_codes(v, seen, out, mod.__name__)
    for code in out:
        sys.monitoring.set_local_events(_TOOL, code, sys.monitoring.events.LINE)
    _monitored.extend(out)
    return len(out)


def monitor_function(fn):
    seen, out = set(), []
    _collect_code(fn.__code__, seen, out)
    for code in out:
        sys.monitoring.set_local_events(_TOOL, code, sys.monitoring.events.LINE)
    _monitored.extend(out)


sys.monitoring.use_tool_id(_TOOL, "rtsim")
sys.monitoring.register_callback(_TOOL, sys.monitoring.events.LINE, _on_line)

MONITORED_MODULES = [
    "cobald.daemon.runners.base_runner",
    "cobald.daemon.runners.meta_runner",
    "cobald.daemon.runners.asyncio_runner",
    "cobald.daemon.runners.trio_runner",
    "cobald.daemon.runners.thread_runner",
    "cobald.daemon.runners.service",
    "cobald.daemon.runners.guard",
    "cobald.daemon.core.main",
]
for _name in MONITORED_MODULES:
    monitor_module(sys.modules[_name])
# the registry of service units is a WeakSet shared between the thread that constructs services
# and the accept loop: iterating it is pure Python without a lock, other threads get in between
import _weakrefset  # noqa: E402

monitor_function(_weakrefset.WeakSet.__iter__)


def crc(obj):
    return zlib.crc32(repr(obj).encode())
