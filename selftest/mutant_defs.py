"""Hand-written mutants for the sensitivity self-test.

Each mutant is a list of textual edits (file under /repo/src, old text, new text) applied to a
scratch copy of /repo/src; the quick check of every listed property must report a violation.
They are taken from the 'why tests cannot' texts of the properties: each still passes the
repository's 85 tests.
"""
R = "cobald/daemon/runners/"

MUTANTS = [
    {
        "name": "c01_asyncio_swallow_falsy",
        "properties": ["C01"],
        "description": "asyncio runner treats every falsy return value like None",
        "edits": [(R + "asyncio_runner.py", "            if result is None:\n                return", "            if not result:\n                return")],
    },
    {
        "name": "c01_thread_swallow_falsy",
        "properties": ["C01"],
        "description": "thread runner treats every falsy return value like None",
        "edits": [(R + "thread_runner.py", "            if result is None:\n                return", "            if not result:\n                return")],
    },
    {
        "name": "c01_trio_swallow_falsy",
        "properties": ["C01"],
        "description": "trio runner ignores falsy return values",
        "edits": [(R + "trio_runner.py", "        if value is not None:", "        if value:")],
    },
    {
        "name": "c03_double_start_on_later_poll",
        "properties": ["C03"],
        "description": "service units are not marked started: every polling cycle starts them again",
        "edits": [(R + "service.py", "            self._started = True\n            runner.register_payload", "            runner.register_payload")],
    },
    {
        "name": "c03_adopt_drops_kwargs",
        "properties": ["C03"],
        "description": "adopt binds positional arguments only",
        "edits": [(R + "service.py", "            payload = functools.partial(payload, *args, **kwargs)\n        self._meta_runner.register_payload", "            payload = functools.partial(payload, *args)\n        self._meta_runner.register_payload")],
    },
    {
        "name": "c03_queue_flush_loses_last",
        "properties": ["C03"],
        "description": "flushing the pre-start queue drops the last payload of every flavour with more than one entry",
        "edits": [(R + "meta_runner.py", "            self.register_payload(*queue, flavour=flavour)", "            self.register_payload(*(queue[:-1] if len(queue) > 2 else queue), flavour=flavour)")],
    },
    {
        "name": "c03_adopt_waits_for_thread_payload",
        "properties": ["C03"],
        "description": "thread runner joins the payload thread: adopt only returns when the payload finished",
        "edits": [(R + "thread_runner.py", "        thread.start()\n", "        thread.start()\n        thread.join()\n")],
    },
    {
        "name": "c03_trio_services_routed_to_asyncio_check",
        "properties": ["C03"],
        "description": "trio payloads submitted from inside the trio thread are started twice (sent and spawned)",
        "edits": [(R + "trio_runner.py", "            try:\n                self._submit_tasks.send_nowait(payload)", "            try:\n                self._submit_tasks.send_nowait(payload)\n                self._submit_tasks.send_nowait(payload)")],
    },
    {
        "name": "c02_trio_never_cancels",
        "properties": ["C02"],
        "description": "closing the trio runner no longer cancels the nursery: trio payloads are never cancelled",
        "edits": [(R + "trio_runner.py", "            nursery.cancel_scope.cancel()", "            pass")],
    },
    {
        "name": "c02_trio_thread_not_awaited",
        "properties": ["C02"],
        "description": "trio runs on a private daemon thread that nobody waits for: the run call returns while trio payloads still unwind",
        "edits": [(R + "trio_runner.py", "            await self.asyncio_loop.run_in_executor(None, self._run_trio_blocking)", "            import threading\n\n            done = self.asyncio_loop.create_future()\n\n            def _bg():\n                try:\n                    self._run_trio_blocking()\n                except BaseException as err:\n                    self.asyncio_loop.call_soon_threadsafe(lambda: done.done() or done.set_exception(err))\n\n            threading.Thread(target=_bg, daemon=True).start()\n            await done")],
    },
    {
        "name": "c10_trio_execute_rewraps_exceptions",
        "properties": ["C10"],
        "description": "execute(flavour=trio) re-wraps exceptions of the payload",
        "edits": [(R + "trio_runner.py", "        return trio.from_thread.run(payload, trio_token=self._trio_token)", "        try:\n            return trio.from_thread.run(payload, trio_token=self._trio_token)\n        except Exception as err:\n            raise type(err)(*err.args) from err")],
    },
    {
        "name": "c10_asyncio_execute_copies_result",
        "properties": ["C10"],
        "description": "execute(flavour=asyncio) returns a copy of the result",
        "edits": [(R + "asyncio_runner.py", "        return future.result()", "        import copy\n\n        return copy.copy(future.result())")],
    },
    {
        "name": "c10_thread_execute_through_monitor",
        "properties": ["C10"],
        "description": "execute(flavour=threading) goes through the failure monitor of background payloads",
        "edits": [(R + "thread_runner.py", "        return payload()\n", "        return self._monitor_payload(payload)\n")],
    },
    {
        "name": "c11_execute_private_trio_run",
        "properties": ["C11", "C10"],
        "description": "execute(flavour=trio) spins up a private trio.run in the caller's thread",
        "edits": [(R + "trio_runner.py", "        return trio.from_thread.run(payload, trio_token=self._trio_token)", "        return trio.run(payload)")],
    },
    {
        "name": "c11_execute_private_asyncio_loop",
        "properties": ["C11", "C10"],
        "description": "execute(flavour=asyncio) runs the coroutine on a private event loop in the caller's thread",
        "edits": [(R + "asyncio_runner.py", "        future = asyncio.run_coroutine_threadsafe(payload(), self.asyncio_loop)\n        return future.result()", "        loop = asyncio.new_event_loop()\n        try:\n            return loop.run_until_complete(payload())\n        finally:\n            loop.close()")],
    },
    {
        "name": "c11_thread_payload_inline_on_loop",
        "properties": ["C11"],
        "description": "thread payloads are run inline on the asyncio loop thread",
        "edits": [(R + "thread_runner.py", "        thread = threading.Thread(\n            target=self._monitor_payload, args=(payload,), daemon=True\n        )\n        thread.start()", "        self.asyncio_loop.call_soon_threadsafe(self._monitor_payload, payload)")],
    },
    {
        "name": "c12_guard_leaks_on_exception",
        "properties": ["C12"],
        "description": "the accept guard is only released when accept returns normally",
        "edits": [(R + "guard.py", "                try:\n                    return fnc(*args, **kwargs)\n                finally:\n                    fnc_guard.release()", "                result = fnc(*args, **kwargs)\n                fnc_guard.release()\n                return result")],
    },
    {
        "name": "c12_keyboard_interrupt_escapes",
        "properties": ["C12"],
        "description": "MetaRunner.run no longer swallows the KeyboardInterrupt of a SIGINT",
        "edits": [(R + "meta_runner.py", "        except KeyboardInterrupt:\n            self._logger.info(\"runner interrupted\")\n", "")],
    },
    {
        "name": "c12_thread_runner_close_joins_threads",
        "properties": ["C12", "C02"],
        "description": "closing the thread runner waits for its payload threads",
        "edits": [
            (R + "thread_runner.py", "        thread.start()\n", "        thread.start()\n        self._threads = getattr(self, \"_threads\", []) + [thread]\n"),
            (R + "thread_runner.py", "        if not self._payload_failure.done():\n            self._payload_failure.set_result(None)\n", "        if not self._payload_failure.done():\n            self._payload_failure.set_result(None)\n        for thread in getattr(self, \"_threads\", []):\n            await self.asyncio_loop.run_in_executor(None, thread.join)\n"),
        ],
    },
    {
        "name": "c13_config_reference_dropped",
        "properties": ["C13"],
        "description": "the loaded configuration is no longer kept referenced while the daemon runs",
        "edits": [("cobald/daemon/core/main.py", "    with load(path):\n        # sleep indefinitely to wait until the runtime is aborted\n        await asyncio.sleep(float(\"inf\"))", "    with load(path):\n        pass\n    await asyncio.sleep(float(\"inf\"))")],
    },
    {
        "name": "c13_load_before_the_loop",
        "properties": ["C13"],
        "description": "the configuration is loaded synchronously before the runtime (and its event loop) starts",
        "edits": [("cobald/daemon/core/main.py", "    runtime.adopt(_load_services, configuration, flavour=asyncio)\n    runtime.accept()", "    with load(configuration):\n        runtime.accept()")],
    },
    {
        "name": "c13_load_errors_swallowed",
        "properties": ["C13"],
        "description": "errors while loading the configuration are logged and swallowed: the daemon stays up idle",
        "edits": [("cobald/daemon/core/main.py", "    with load(path):\n        # sleep indefinitely to wait until the runtime is aborted\n        await asyncio.sleep(float(\"inf\"))", "    try:\n        with load(path):\n            await asyncio.sleep(float(\"inf\"))\n    except Exception:\n        logging.getLogger(\"cobald.runtime\").exception(\"configuration failed\")\n        await asyncio.sleep(float(\"inf\"))")],
    },
    {
        "name": "c13_exit_zero_on_failure",
        "properties": ["C13"],
        "description": "a failed runtime is reported on the log but the process exits with status 0",
        "edits": [("cobald/daemon/core/main.py", "    runtime.accept()\n", "    try:\n        runtime.accept()\n    except RuntimeError:\n        logger.error(\"daemon failed\")\n")],
    },
    {
        "name": "c08_linear_threshold_inclusive",
        "properties": ["C08"],
        "description": "LinearController decreases demand already when utilisation equals the threshold",
        "edits": [("cobald/controller/linear.py", "if self.target.utilisation < self.low_utilisation:", "if self.target.utilisation <= self.low_utilisation:")],
    },
    {
        "name": "c08_stepwise_range_shifted",
        "properties": ["C08", "C09"],
        "description": "Stepwise selects the rule of the range below when supply sits exactly on a threshold",
        "edits": [("cobald/controller/stepwise.py", "            if low <= supply < high:", "            if low < supply <= high or (supply == 0 and low == 0):")],
    },
    {
        "name": "c08_switch_threshold_strict",
        "properties": ["C08"],
        "description": "DemandSwitch only switches when demand is strictly above a threshold",
        "edits": [("cobald/controller/switch.py", "            if demand <= self.target.demand:", "            if demand < self.target.demand:")],
    },
    {
        "name": "c08_relsupply_idle_keeps_demand",
        "properties": ["C08"],
        "description": "RelativeSupplyController leaves demand untouched when neither condition holds",
        "edits": [("cobald/controller/relative_supply.py", "        else:\n            self.target.demand = self.target.supply\n", "")],
    },
    {
        "name": "c09_linear_sleeps_two_intervals",
        "properties": ["C09"],
        "description": "LinearController.run sleeps two intervals between steps",
        "edits": [("cobald/controller/linear.py", "            await trio.sleep(self.interval)", "            await trio.sleep(self.interval * 2)")],
    },
    {
        "name": "c09_buffer_half_window",
        "properties": ["C09"],
        "description": "Buffer flushes every half window",
        "edits": [("cobald/decorator/buffer.py", "            await trio.sleep(self.window)", "            await trio.sleep(self.window / 2)")],
    },
    {
        "name": "c09_buffer_skips_equal_check_stale",
        "properties": ["C09"],
        "description": "Buffer only flushes when the pending demand is larger than the target's",
        "edits": [("cobald/decorator/buffer.py", "            if self.demand != self.target.demand:", "            if self.demand > self.target.demand:")],
    },
    {
        "name": "c09_switch_run_uses_default_interval",
        "properties": ["C09"],
        "description": "DemandSwitch.run sleeps 1 second regardless of its interval",
        "edits": [("cobald/controller/switch.py", "            await trio.sleep(self.interval)", "            await trio.sleep(1)")],
    },
    {
        "name": "c09_factory_loop_ends",
        "properties": ["C09", "C15"],
        "description": "FactoryPool.run adjusts once and then only sleeps",
        "edits": [("cobald/composite/factory.py", "            if supply > demand:\n                self._shrink(target=demand)\n            else:\n                self._grow(target=demand)", "            if supply > demand:\n                self._shrink(target=demand)\n            else:\n                self._grow(target=demand)\n            await trio.sleep(float(\"inf\"))")],
    },
    {
        "name": "c15_grow_off_by_one",
        "properties": ["C15"],
        "description": "FactoryPool spawns one child more when the demand is exactly covered",
        "edits": [("cobald/composite/factory.py", "        while missing_demand > 0:", "        while missing_demand >= 0:")],
    },
    {
        "name": "c15_shrink_greedy_overshoot",
        "properties": ["C15"],
        "description": "FactoryPool releases children greedily until the excess is gone, overshooting the request",
        "edits": [("cobald/composite/factory.py", "            if child.demand <= excess_demand:\n                excess_demand -= child.demand\n                self._release_child(child)", "            excess_demand -= child.demand\n            self._release_child(child)")],
    },
    {
        "name": "c15_release_keeps_demand",
        "properties": ["C15"],
        "description": "released children keep their demand",
        "edits": [("cobald/composite/factory.py", "        child.demand = 0\n        self._hatchery.discard(child)", "        self._hatchery.discard(child)")],
    },
    {
        "name": "c15_aggregate_active_only",
        "properties": ["C15"],
        "description": "FactoryPool aggregates supply over active children only",
        "edits": [("cobald/composite/factory.py", "        return sum(child.supply for child in self.children)", "        return sum(child.supply for child in self._hatchery)")],
    },
    {
        "name": "c15_grow_does_not_reap",
        "properties": ["C15"],
        "description": "children without demand are only released when the pool shrinks",
        "edits": [("cobald/composite/factory.py", "            missing_demand -= new_child.demand\n        self._reap_children()", "            missing_demand -= new_child.demand")],
    },
    {
        "name": "c15_released_child_still_active",
        "properties": ["C15"],
        "description": "a released child stays in the active set as well",
        "edits": [("cobald/composite/factory.py", "        self._hatchery.discard(child)\n        self._mortuary.add(child)", "        self._mortuary.add(child)")],
    },
    {
        "name": "c06_limit_priority_swapped",
        "properties": ["C06"],
        "description": "Standardiser applies minimum/maximum before the supply window",
        "edits": [("cobald/decorator/standardiser.py", "        by_supply = _clamp(supply - self.backlog, value, supply + self.surplus)\n        by_limits = _clamp(self.minimum, by_supply, self.maximum)", "        by_supply = _clamp(self.minimum, value, self.maximum)\n        by_limits = _clamp(supply - self.backlog, by_supply, supply + self.surplus)")],
    },
    {
        "name": "c06_getter_always_resyncs",
        "properties": ["C06"],
        "description": "Standardiser.demand always reports the target's (rounded) demand",
        "edits": [("cobald/decorator/standardiser.py", "        if abs(self._demand - self.target.demand) >= self.granularity:", "        if True:")],
    },
    {
        "name": "c06_rounds_up",
        "properties": ["C06"],
        "description": "Standardiser rounds up to the granularity",
        "edits": [("cobald/decorator/standardiser.py", "    return n // base * base", "    return -(-n // base) * base")],
    },
    {
        "name": "c06_floor_after_clamp_only_when_larger",
        "properties": ["C06"],
        "description": "the granularity floor is applied after clamping (may undercut the minimum)",
        "edits": [("cobald/decorator/standardiser.py", "            self.target.demand = self._clamp_demand(_floor(value, self.granularity))", "            self.target.demand = _floor(self._clamp_demand(value), self.granularity)")],
    },
    {
        "name": "c07_uniform_integer_division",
        "properties": ["C07"],
        "description": "UniformComposite distributes demand with floor division",
        "edits": [("cobald/composite/uniform.py", "            pool.demand = value / child_count", "            pool.demand = value // child_count")],
    },
    {
        "name": "c07_weighted_fallback_always_one",
        "properties": ["C07"],
        "description": "WeightedComposite reports fitness 1.0 whenever the weights vanish",
        "edits": [("cobald/composite/weighted.py", "        return 0.0 if self.supply > 0 else 1.0", "        return 1.0")],
    },
    {
        "name": "c07_weighted_demand_by_supply_only",
        "properties": ["C07"],
        "description": "WeightedComposite always distributes demand by supply, whatever the configured weight",
        "edits": [("cobald/composite/weighted.py", "                pool.demand = value * getattr(pool, self._weight) / self._total_weight", "                pool.demand = value * pool.supply / self._total_weight")],
    },
    {
        "name": "c07_weighted_readback_is_sum",
        "properties": ["C07"],
        "description": "WeightedComposite.demand reads back the sum of the children's demands",
        "edits": [("cobald/composite/weighted.py", "    def demand(self):\n        return self._demand", "    def demand(self):\n        return sum(child.demand for child in self.children)")],
    },
]
