"""Hand-written mutants for the sensitivity self-test.

Each mutant is a list of textual edits (file under /repo/src, old text, new text) applied to a
scratch copy of /repo/src; the quick check of every listed property must report a violation.
They are taken from the 'why tests cannot' texts of the properties: each still passes the
repository's 85 tests.
"""
R = "cobald/daemon/runners/"

MUTANTS = [
    {
        "name": "c01_asyncio_swallow_falsy",
        "properties": ["C01"],
        "description": "asyncio runner treats every falsy return value like None",
        "edits": [(R + "asyncio_runner.py", "            if result is None:\n                return", "            if not result:\n                return")],
    },
    {
        "name": "c01_thread_swallow_falsy",
        "properties": ["C01"],
        "description": "thread runner treats every falsy return value like None",
        "edits": [(R + "thread_runner.py", "            if result is None:\n                return", "            if not result:\n                return")],
    },
    {
        "name": "c01_trio_swallow_falsy",
        "properties": ["C01"],
        "description": "trio runner ignores falsy return values",
        "edits": [(R + "trio_runner.py", "        if value is not None:", "        if value:")],
    },
]
