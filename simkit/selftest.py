"""Self-tests that gate the checks: imports, determinism, sensitivity."""
import os
import subprocess
import sys
import time

from .util import VERIF_ROOT
from . import orch
from .specs import SPECS


def imports():
    ok = True
    for engine in sorted({s["engine"] for s in SPECS.values()}):
        try:
            w = orch.Worker(engine)
            w.close()
            print("selftest imports: engine %s ok" % engine)
        except Exception as err:
            ok = False
            print("selftest imports: engine %s FAILED: %s" % (engine, err))
    return ok


def determinism(props, nseeds):
    """Same seeds twice, in fresh worker processes, under different PYTHONHASHSEED and
    different batching; every digest must agree."""
    ok = True
    for prop in props:
        spec = SPECS[prop]
        digests = []
        configs = [("0", 1), ("1", 3), ("12345", 2)]
        for hashseed, step in configs:
            w = orch.Worker(spec["engine"], {"PYTHONHASHSEED": hashseed})
            try:
                got = {}
                idxs = list(range(nseeds))
                if step != 1:
                    idxs = idxs[::-1]
                for lo in range(0, len(idxs), 7 * step):
                    rep = w.call({"op": "batch", "prop": prop, "tier": "quick", "base": 424242, "indices": idxs[lo : lo + 7 * step], "recheck_every": 1})
                    for r in rep["runs"]:
                        got[r["i"]] = (r["d"], r.get("recheck"))
                    for e in rep.get("errors", []):
                        got[e["i"]] = ("error:" + e["error"][:80], False)
                digests.append(got)
            finally:
                w.close()
        bad = []
        for i in range(nseeds):
            ds = {d.get(i, ("missing", False))[0] for d in digests}
            rc = all(d.get(i, ("missing", False))[1] for d in digests)
            if len(ds) != 1 or not rc:
                bad.append((i, sorted(ds), rc))
        print("selftest determinism %s: %d seeds x %d process configs x 2 executions, %d mismatches" % (prop, nseeds, len(configs), len(bad)))
        for b in bad[:5]:
            print("   mismatch", b)
        ok = ok and not bad
    return ok


def main(args):
    props = [p for p in args.props.split(",") if p] or sorted(SPECS)
    ok = True
    if args.what in ("imports", "all"):
        ok = imports() and ok
    if args.what in ("determinism", "all"):
        ok = determinism(props, args.seeds or 40) and ok
    if args.what in ("sensitivity",):
        from . import mutants

        ok = mutants.run(props if args.props else None, runs=args.runs, names=[n for n in args.names.split(',') if n] or None) and ok
    if args.what in ("seeded",):
        from . import mutants

        ok = mutants.run_seeded(names=[n for n in args.names.split(',') if n] or None, runs=args.runs) and ok
    return 0 if ok else 2
