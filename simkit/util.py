"""Shared helpers: seed derivation, tapes, digests, JSON I/O.

Nothing in here reads a real clock or the global `random` state.
"""
import hashlib
import json
import os
import random

VERIF_ROOT = os.path.dirname(os.path.dirname(os.path.abspath(__file__)))
DEFAULT_SEED = 20261002


def base_seed() -> int:
    raw = os.environ.get("VERIF_SEED", "").strip()
    if not raw:
        return DEFAULT_SEED
    try:
        return int(raw)
    except ValueError:
        return int(hashlib.sha256(raw.encode()).hexdigest()[:12], 16)


def derive_seed(base: int, prop: str, index: int) -> int:
    h = hashlib.sha256(("%d:%s:%d" % (base, prop, index)).encode()).hexdigest()
    return int(h[:15], 16)


def digest(obj) -> str:
    return hashlib.sha256(
        json.dumps(obj, sort_keys=True, default=repr, separators=(",", ":")).encode()
    ).hexdigest()[:16]


class Tape:
    """Source of every schedule/fault choice made after scenario generation.

    search mode: values are computed by the caller's strategy and *recorded*;
    replay mode: values are read back, 0 past the end ("default choice").
    """

    __slots__ = ("values", "pos", "replay", "rng")

    def __init__(self, values=None, seed=0):
        self.replay = values is not None
        self.values = list(values) if values is not None else []
        self.pos = 0
        self.rng = random.Random(seed)

    def take(self, n, proposer=None):
        """Return an int in [0, n).  In search mode `proposer(rng)` supplies it."""
        if self.replay:
            if self.pos < len(self.values):
                v = self.values[self.pos]
            else:
                v = 0
            self.pos += 1
            if n > 0:
                v %= n
            return v
        v = proposer(self.rng) if proposer is not None else self.rng.randrange(n)
        if n > 0:
            v %= n
        self.values.append(v)
        self.pos += 1
        return v

    def recorded(self):
        if self.replay:
            vals = self.values[: self.pos]
        else:
            vals = self.values
        # strip trailing zeros: past-the-end reads yield 0 anyway
        end = len(vals)
        while end and vals[end - 1] == 0:
            end -= 1
        return vals[:end]


def dump_json(path, obj):
    tmp = path + ".tmp.%d" % os.getpid()
    with open(tmp, "w") as f:
        json.dump(obj, f, indent=1, sort_keys=True, default=repr)
        f.write("\n")
    os.replace(tmp, path)


def load_json(path):
    with open(path) as f:
        return json.load(f)


def setup_cobald_path():
    """Make `import cobald` resolve to /repo/src (or VERIF_SRC for mutant runs)."""
    import sys

    src = os.environ.get("VERIF_SRC") or "/repo/src"
    if sys.path[0] != src:
        sys.path.insert(0, src)
    return src
