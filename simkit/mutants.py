"""Sensitivity self-test: hand-written mutants of cobald, applied to a scratch copy of
/repo/src outside /repo and /verif; the quick check of the property must report a violation."""
import os
import shutil
import subprocess
import tempfile

from .util import VERIF_ROOT, load_json
from . import orch
from .specs import SPECS

import importlib.util

DEFS = os.path.join(VERIF_ROOT, "selftest", "mutant_defs.py")


def list_mutants(props=None, names=None):
    spec = importlib.util.spec_from_file_location("mutant_defs", DEFS)
    mod = importlib.util.module_from_spec(spec)
    spec.loader.exec_module(mod)
    out = []
    for m in mod.MUTANTS:
        if props and not (set(m["properties"]) & set(props)):
            continue
        if names and m["name"] not in names:
            continue
        out.append(m)
    return out


def apply_to_copy(mutant):
    tmp = tempfile.mkdtemp(prefix="verif-mut-")
    # VERIF_BASE_SRC: a snapshot of /repo/src (soaks that must not see temporary patches in /repo)
    shutil.copytree(os.environ.get("VERIF_BASE_SRC") or "/repo/src", os.path.join(tmp, "src"))
    for rel, old, new in mutant["edits"]:
        path = os.path.join(tmp, "src", rel)
        text = open(path).read()
        if text.count(old) != 1:
            shutil.rmtree(tmp, ignore_errors=True)
            raise RuntimeError("edit of %s: old text found %d times" % (rel, text.count(old)))
        open(path, "w").write(text.replace(old, new))
    return tmp


def run(props=None, runs=None, names=None):
    ok = True
    for m in list_mutants(props, names):
        try:
            tmp = apply_to_copy(m)
        except RuntimeError as err:
            print("mutant %-40s PATCH-FAILED %s" % (m["name"], err))
            ok = False
            continue
        rdir = os.path.join(tmp, "replays")
        try:
            for prop in m["properties"]:
                if props and prop not in props:
                    continue
                if prop not in SPECS:
                    continue
                code, summary = orch.run_check(prop, "quick", SPECS[prop], runs=runs or m.get("runs"), quiet=True, write_evidence=False, env_extra={"VERIF_SRC": os.path.join(tmp, "src")}, replay_dir=rdir)
                caught = code == 1
                keys = [k for k, _, _, _ in summary["violations"]]
                print("mutant %-40s %s %s runs=%d wall=%.1fs classes=%s%s" % (m["name"], prop, "CAUGHT" if caught else "MISSED", summary["evaluations"], summary["wall_s"], keys[:4], "" if not summary["harness_problems"] else " harness=%r" % summary["harness_problems"][:1]))
                ok = ok and caught
        finally:
            shutil.rmtree(tmp, ignore_errors=True)
    return ok


def run_seeded(names=None, runs=None):
    """The independently written changes under seeded/<name>/: patch applied to a scratch copy of
    the source tree (never to /repo), quick check of the property named in meta.json via VERIF_SRC."""
    import json
    import subprocess

    root = os.path.join(os.path.dirname(os.path.dirname(os.path.abspath(__file__))), "seeded")
    ok = True
    for name in sorted(os.listdir(root)):
        if names and name not in names:
            continue
        d = os.path.join(root, name)
        if not os.path.exists(os.path.join(d, "patch.diff")):
            continue
        meta = json.load(open(os.path.join(d, "meta.json")))
        if meta.get("superseded_by_fix"):
            print("seeded %-12s SKIPPED (harmless since repository fix %s, kept as documentation)" % (name, meta["superseded_by_fix"]))
            continue
        # the check of the property the change was written against, unless the stored notes say that
        # it is the check of another property that reports it (meta "caught_by_check")
        prop = meta.get("caught_by_check") or meta.get("property") or name.split("_")[-1]
        tmp = tempfile.mkdtemp(prefix="verif-seeded-")
        try:
            shutil.copytree(os.environ.get("VERIF_BASE_SRC") or "/repo/src", os.path.join(tmp, "src"))
            p = subprocess.run(["git", "apply", "-p1", os.path.join(d, "patch.diff")], cwd=tmp, capture_output=True, text=True)
            if p.returncode != 0:
                print("seeded %-12s PATCH-FAILED %s" % (name, p.stderr.strip()[:200]))
                ok = False
                continue
            code, summary = orch.run_check(prop, "quick", SPECS[prop], runs=runs, quiet=True, write_evidence=False, env_extra={"VERIF_SRC": os.path.join(tmp, "src")}, replay_dir=os.path.join(tmp, "replays"))
            keys = [k for k, _, _, _ in summary["violations"]]
            # a change recorded as not caught (meta "not_caught": why) is still run and reported, but
            # does not fail the self-test: the miss is documented in DESIGN 13.1, not hidden
            recorded = meta.get("not_caught") if code != 1 else None
            print("seeded %-12s %s %s runs=%d wall=%.1fs classes=%s%s" % (name, prop, "CAUGHT" if code == 1 else ("MISSED (recorded as not caught)" if recorded else "MISSED"), summary["evaluations"], summary["wall_s"], keys[:4], "" if not summary["harness_problems"] else " harness=%r" % summary["harness_problems"][:1]))
            ok = ok and (code == 1 or bool(recorded))
        finally:
            shutil.rmtree(tmp, ignore_errors=True)
    return ok
