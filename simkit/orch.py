"""Orchestrator: hands seed ranges to workers, collects results, minimises,
writes replay + evidence files.  An ordinary unpatched process."""
import fnmatch
import json
import os
import queue
import re
import subprocess
import sys
import threading
import time

from .util import VERIF_ROOT, base_seed, derive_seed, digest, dump_json, load_json

PY = "/venv/bin/python"
WORKER = os.path.join(VERIF_ROOT, "simkit", "worker.py")


class HarnessError(Exception):
    pass


class Worker:
    def __init__(self, engine, env_extra=None):
        env = dict(os.environ)
        env.setdefault("PYTHONHASHSEED", "0")
        env["PYTHONDONTWRITEBYTECODE"] = "1"
        env["COBALD_VERIF"] = "1"
        if env_extra:
            env.update(env_extra)
        self.engine = engine
        self.proc = subprocess.Popen(
            [PY, "-B", WORKER, engine],
            stdin=subprocess.PIPE,
            stdout=subprocess.PIPE,
            stderr=subprocess.PIPE,
            env=env,
            text=True,
            bufsize=1,
        )
        self.stderr_tail = []
        self._drain = threading.Thread(target=self._drain_stderr, daemon=True)
        self._drain.start()
        hello = self._read()
        if not hello or hello.get("op") != "hello":
            raise HarnessError("worker failed to start: %r\n%s" % (hello, "".join(self.stderr_tail[-40:])))

    def _drain_stderr(self):
        for line in self.proc.stderr:
            self.stderr_tail.append(line)
            if len(self.stderr_tail) > 400:
                del self.stderr_tail[:200]

    def _read(self):
        line = self.proc.stdout.readline()
        if not line:
            return None
        return json.loads(line)

    def call(self, msg):
        try:
            self.proc.stdin.write(json.dumps(msg, default=repr) + "\n")
            self.proc.stdin.flush()
        except BrokenPipeError:
            raise HarnessError("worker died: %s" % "".join(self.stderr_tail[-40:]))
        rep = self._read()
        if rep is None:
            raise HarnessError("worker died (no reply): %s" % "".join(self.stderr_tail[-40:]))
        if rep.get("op") == "error":
            raise HarnessError("worker error: %s\n%s" % (rep.get("error"), rep.get("trace", "")))
        return rep

    def close(self):
        try:
            self.proc.stdin.write('{"op":"quit"}\n')
            self.proc.stdin.flush()
            self.proc.stdin.close()
        except Exception:
            pass
        try:
            self.proc.wait(timeout=10)
        except Exception:
            self.proc.kill()


def load_findings():
    path = os.path.join(VERIF_ROOT, "known_findings.json")
    if not os.path.exists(path):
        return []
    data = load_json(path)
    return [f for f in data.get("findings", []) if f.get("status", "known") == "known"]


def match_finding(findings, prop, key):
    for f in findings:
        if f["property"] == prop and fnmatch.fnmatchcase(key, f["key"]):
            return f
    return None


def _safe(s):
    return re.sub(r"[^A-Za-z0-9_.-]+", "_", s)[:90]


def merge_counts(dst, src):
    for k, v in (src or {}).items():
        dst[k] = dst.get(k, 0) + v


def run_check(prop, tier, spec, nworkers=None, runs=None, budget_s=None, quiet=False, write_evidence=True, env_extra=None, replay_dir=None):
    """Run one check. Returns (exit_code, summary dict)."""
    t0 = time.monotonic()
    base = base_seed()
    nworkers = nworkers or int(os.environ.get("VERIF_WORKERS") or 0) or min(16, os.cpu_count() or 4)
    tcfg = spec["tiers"][tier]
    total = runs if runs is not None else int(os.environ.get("VERIF_RUNS") or tcfg["runs"])
    budget = budget_s if budget_s is not None else float(os.environ.get("VERIF_BUDGET_S") or tcfg["budget_s"])
    chunk = tcfg.get("chunk", 20)
    recheck_every = tcfg.get("recheck_every", 100)
    engine = spec["engine"]
    findings = load_findings()

    lock = threading.Lock()
    state = {"next": 0, "stop": False}
    agg = {
        "evaluations": 0,
        "sigs": set(),
        "steps": 0,
        "vsec": 0.0,
        "faults": {},
        "probes": {},
        "strategies": {},
        "switch_pairs": set(),
        "rechecks": 0,
        "recheck_mismatch": [],
        "samples": [],
        "errors": [],
        "retried_ok": 0,
    }
    viol_by_key = {}
    harness_problems = []

    def take_chunk():
        with lock:
            if state["stop"] or state["next"] >= total:
                return None
            if time.monotonic() - t0 > budget:
                state["stop"] = True
                return None
            lo = state["next"]
            hi = min(total, lo + chunk)
            state["next"] = hi
            return list(range(lo, hi))

    def feed(widx):
        try:
            w = Worker(engine, env_extra)
        except Exception as err:
            with lock:
                harness_problems.append("worker start: %s" % err)
            return
        try:
            first = True
            while True:
                idxs = take_chunk()
                if idxs is None:
                    break
                rep = w.call(
                    {
                        "op": "batch",
                        "prop": prop,
                        "tier": tier,
                        "base": base,
                        "indices": idxs,
                        "recheck_every": recheck_every,
                        "want_sample": first and widx < 3,
                    }
                )
                first = False
                # retry harness errors once in a fresh child; still failing => harness problem
                for e in rep.get("errors", []):
                    g = w.call({"op": "gen", "prop": prop, "tier": tier, "base": base, "index": e["i"]})
                    r2 = {"harness_error": e["error"]}
                    for attempt in range(3):  # transient trouble of the machine (fork / thread limits, watchdog under load)
                        time.sleep(0.5 * attempt)
                        r2 = w.call({"op": "exec", "prop": prop, "scenario": g["scenario"], "tape": None})["result"]
                        if not r2.get("harness_error"):
                            break
                    with lock:
                        if r2.get("harness_error"):
                            agg["errors"].append({"i": e["i"], "seed": e["seed"], "error": e["error"], "retry": r2["harness_error"]})
                        else:
                            agg["retried_ok"] += 1
                            if len(agg.setdefault("retried_msgs", [])) < 5:
                                agg["retried_msgs"].append(str(e["error"])[-300:])
                            agg["evaluations"] += 1
                            for v in r2.get("violations", []):
                                viol_by_key.setdefault(v["key"], []).append(
                                    {"i": e["i"], "seed": e["seed"], "scenario": g["scenario"], "tape": r2.get("tape", []), "violations": r2["violations"], "digest": r2.get("digest")}
                                )
                with lock:
                    for r in rep["runs"]:
                        agg["evaluations"] += 1
                        st = r.get("st") or {}
                        if r.get("nt") and r.get("sig"):
                            agg["sigs"].add(r["sig"])
                        agg["steps"] += st.get("steps", 0)
                        agg["vsec"] += st.get("vsec", 0.0)
                        merge_counts(agg["faults"], st.get("faults"))
                        merge_counts(agg["probes"], st.get("probes"))
                        if st.get("strategy"):
                            agg["strategies"][st["strategy"]] = agg["strategies"].get(st["strategy"], 0) + 1
                        for sp in st.get("switch_pairs", ()):
                            agg["switch_pairs"].add(sp)
                        if "recheck" in r:
                            agg["rechecks"] += 1
                            if not r["recheck"]:
                                agg["recheck_mismatch"].append({"i": r["i"], "detail": r.get("recheck_detail")})
                        if "sample" in r and len(agg["samples"]) < 3:
                            agg["samples"].append(r["sample"])
                    for v in rep["violations"]:
                        for vv in v["violations"]:
                            viol_by_key.setdefault(vv["key"], []).append(v)
        except HarnessError as err:
            with lock:
                harness_problems.append(str(err))
        finally:
            w.close()

    threads = [threading.Thread(target=feed, args=(i,), daemon=True) for i in range(nworkers)]
    for t in threads:
        t.start()
    for t in threads:
        t.join()
    explore_s = time.monotonic() - t0

    # ---- violations: confirm, minimise, write replay files ---------------
    new_violations = []
    transients = []
    side_notes = []
    known_lines = []
    replay_dir = replay_dir or os.environ.get("VERIF_REPLAY_DIR") or os.path.join(VERIF_ROOT, "replays")
    os.makedirs(replay_dir, exist_ok=True)
    min_budget = tcfg.get("minimise_s", 20)
    keys = sorted(viol_by_key, key=lambda k: (match_finding(findings, prop, k) is not None, k))
    unknown_keys = [k for k in keys if match_finding(findings, prop, k) is None]
    known_keys = [k for k in keys if match_finding(findings, prop, k) is not None]
    seen_findings = {}
    for k in known_keys:
        f = match_finding(findings, prop, k)
        seen_findings.setdefault(f["key"], (f, 0))
        seen_findings[f["key"]] = (f, seen_findings[f["key"]][1] + len(viol_by_key[k]))
    for f in findings:
        if f["property"] != prop:
            continue
        n = seen_findings.get(f["key"], (f, 0))[1]
        known_lines.append("KNOWN-FINDING: property=%s %s [class %s; %s]" % (prop, f["what"], f["key"], ("hit in %d runs of this batch" % n) if n else "not hit in this batch"))

    if unknown_keys:
        todo = unknown_keys[: tcfg.get("max_report", 6)]
        results = {}

        def confirm_one(k):
            """Minimise and replay (in a fresh interpreter) one witness of class k; if a witness does not
            reproduce - the code under test may carry state from earlier runs of the same worker process,
            e.g. a class-level container - the next witnesses of the class get their chance."""
            notes, last = [], None
            for v in viol_by_key[k][:4]:
                msg0 = next(vv["msg"] for vv in v["violations"] if vv["key"] == k)
                try:
                    w = Worker(engine, env_extra)
                except Exception as err:
                    results[k] = ("error", str(err), notes)
                    return
                try:
                    rep = w.call({"op": "minimise", "prop": prop, "scenario": v["scenario"], "tape": v["tape"], "key": k, "budget_s": min_budget})
                except HarnessError as err:
                    results[k] = ("error", str(err), notes)
                    return
                finally:
                    w.close()
                if not rep.get("ok") and rep.get("why") == "not reproduced":
                    notes.append(("transient", {"class": k, "seed": v["seed"], "message": msg0[:300], "events_tail": v.get("events_tail", [])[-40:], "log_tail": v.get("log_tail", [])[-12:]}))
                    continue
                if not rep.get("ok"):
                    scen, tape, res = v["scenario"], v["tape"], None
                else:
                    scen, tape, res = rep["scenario"], rep["tape"], rep["result"]
                path = os.path.join(replay_dir, "%s-%s-%d.json" % (prop, _safe(k), v["seed"]))
                msg = msg0
                if res:
                    msg = next((vv["msg"] for vv in res["violations"] if vv["key"] == k), msg0)
                dump_json(
                    path,
                    {
                        "version": 1,
                        "property": prop,
                        "engine": engine,
                        "key": k,
                        "message": msg,
                        "seed": v["seed"],
                        "index": v["i"],
                        "base_seed": base,
                        "scenario": scen,
                        "tape": tape,
                        "expect_digest": res.get("digest") if res else v.get("digest"),
                        "events": (res or {}).get("events", [])[-200:],
                        "original_sizes": {"scenario_chars": len(json.dumps(v["scenario"], default=repr)), "tape_len": len(v["tape"])},
                        "minimise_tries": rep.get("tries"),
                        "also_seen_seeds": [x["seed"] for x in viol_by_key[k][1:6]],
                    },
                )
                # replay once more in a fresh interpreter
                ok, out = replay_file(path, quiet=True, env_extra=env_extra)
                if ok:
                    results[k] = ("confirmed", path, msg, notes)
                    return
                notes.append(("fresh-replay", "replay of %s in a fresh interpreter did not reproduce: %s" % (path, out[-300:])))
                try:
                    os.unlink(path)
                except OSError:
                    pass
                if res is not None:
                    # the minimiser runs many attempts in one process; if the code under test keeps state between
                    # runs the minimised scenario may depend on that - fall back to the witness as it was found
                    dump_json(path, {"version": 1, "property": prop, "engine": engine, "key": k, "message": msg0, "seed": v["seed"], "index": v["i"], "base_seed": base, "scenario": v["scenario"], "tape": v["tape"], "expect_digest": v.get("digest"), "events": [], "original_sizes": {"scenario_chars": len(json.dumps(v["scenario"], default=repr)), "tape_len": len(v["tape"])}, "minimise_tries": None, "not_minimised": "the minimised scenario did not replay in a fresh interpreter", "also_seen_seeds": [x["seed"] for x in viol_by_key[k][1:6]]})
                    ok, out = replay_file(path, quiet=True, env_extra=env_extra)
                    if ok:
                        results[k] = ("confirmed", path, msg0, notes)
                        return
                    try:
                        os.unlink(path)
                    except OSError:
                        pass
            results[k] = ("unconfirmed", None, None, notes)

        mts = [threading.Thread(target=confirm_one, args=(k,), daemon=True) for k in todo]
        for t in mts:
            t.start()
        for t in mts:
            t.join()
        for k in todo:
            r = results.get(k)
            if r is None or r[0] == "error":
                harness_problems.append("minimise %s: %s" % (k, r and r[1]))
                continue
            notes = r[-1]
            if r[0] == "confirmed":
                new_violations.append((k, r[1], r[2], len(viol_by_key[k])))
                # witnesses of a confirmed class that did not replay are put down to state the code under test
                # carries from run to run inside one worker process; they are recorded, not counted
                for kind_, item in notes:
                    if kind_ == "transient":
                        item = dict(item, confirmed_by_another_witness=True)
                        side_notes.append(item)
                continue
            # what cannot be replayed is not a failure report.  A handful of such observations is put down to a
            # transient disturbance of the machine (seen once: three runs of one batch while ~70 workers of other
            # checks competed for the box) and recorded in the evidence; more than that means the harness itself
            # is not deterministic, which is a HARNESS-ERROR.
            for kind_, item in notes:
                if kind_ == "transient":
                    transients.append(item)
                else:
                    harness_problems.append(item)
        # further classes are only listed next to at least one *confirmed* (replayed) violation; if nothing
        # reproduced, everything seen was a transient disturbance of the harness, not a verdict
        if new_violations:
            for k in unknown_keys[len(todo):]:
                new_violations.append((k, None, "(not minimised, see first %d classes)" % len(todo), len(viol_by_key[k])))
        elif unknown_keys[len(todo):]:
            harness_problems.append("%d further violation classes were seen but none of the first %d reproduced: %r" % (len(unknown_keys) - len(todo), len(todo), unknown_keys[len(todo):][:5]))

    wall = time.monotonic() - t0
    if agg["recheck_mismatch"]:
        harness_problems.append("determinism guard: %d/%d re-executed runs gave a different digest: %r" % (len(agg["recheck_mismatch"]), agg["rechecks"], agg["recheck_mismatch"][:3]))
    if agg["errors"]:
        harness_problems.append("%d runs failed in the harness twice: %r" % (len(agg["errors"]), agg["errors"][:3]))
    if agg["evaluations"] == 0:
        harness_problems.append("no run completed")
    if len(transients) > 5:
        harness_problems.append("%d observed violations did not reproduce on replay: nondeterministic harness: %r" % (len(transients), transients[:4]))

    summary = {
        "property": prop,
        "tier": tier,
        "evaluations": agg["evaluations"],
        "distinct": len(agg["sigs"]),
        "wall_s": round(wall, 2),
        "violations": [(k, p, m, n) for k, p, m, n in new_violations],
        "known": known_lines,
        "harness_problems": harness_problems,
    }
    if write_evidence and agg["evaluations"]:
        ev = {
            "property_id": prop,
            "tier": tier,
            "seed": base,
            "level": "exploration",
            "wall_s": round(wall, 2),
            "violations": len(new_violations),
            "coverage": {
                "evaluations": agg["evaluations"],
                "distinct_nontrivial": len(agg["sigs"]),
                "rule": spec["rule"],
                "samples": agg["samples"] or [{"note": "no sample captured"}],
                "runs_per_hour": int(agg["evaluations"] / max(explore_s, 1e-6) * 3600),
                "explore_wall_s": round(explore_s, 2),
                "workers": nworkers,
                "virtual_seconds_total": round(agg["vsec"], 3),
                "steps_total": agg["steps"],
                "fault_counts": dict(sorted(agg["faults"].items())),
                "probe_counts": dict(sorted(agg["probes"].items())),
                "strategies": dict(sorted(agg["strategies"].items())),
                "distinct_switch_pairs": len(agg["switch_pairs"]),
                "determinism_guard": {"reexecuted": agg["rechecks"], "mismatches": len(agg["recheck_mismatch"])},
                "harness_retries_ok": agg["retried_ok"],
                "harness_retry_reasons": agg.get("retried_msgs", []),
                "unreproduced_observations_discarded": transients + side_notes,
                "known_findings_seen": known_lines,
                "violation_classes": [k for k, _, _, _ in new_violations],
                "real_components": spec["real_components"],
                "stub_components": spec["stub_components"],
                "exhaustive": False,
            },
            "assumptions": spec["assumptions"],
        }
        os.makedirs(os.path.join(VERIF_ROOT, "evidence"), exist_ok=True)
        dump_json(os.path.join(VERIF_ROOT, "evidence", "%s.json" % prop), ev)

    if not quiet:
        for line in known_lines:
            print(line)
        for k, path, msg, n in new_violations:
            print("VIOLATION property=%s replay=%s" % (prop, path))
            print("  class=%s runs=%d: %s" % (k, n, msg))
        for tr in transients:
            print("NOTE property=%s an observation of class %s (seed %s) did not reproduce on replay and was discarded: %s" % (prop, tr["class"], tr["seed"], tr.get("message", "")[:200]))
        for hp in harness_problems:
            print("HARNESS-ERROR property=%s %s" % (prop, hp))
        print(
            "%s %s: %d runs (%d distinct non-trivial) in %.1fs, %.0f runs/h, vsec=%.0f, violations=%d known=%d"
            % (prop, tier, agg["evaluations"], len(agg["sigs"]), wall, agg["evaluations"] / max(explore_s, 1e-6) * 3600, agg["vsec"], len(new_violations), len(known_lines))
        )
        sys.stdout.flush()
    if new_violations:
        return 1, summary
    if harness_problems:
        return 2, summary
    return 0, summary


def replay_file(path, quiet=False, env_extra=None):
    """Replay a replay file in a fresh interpreter. Returns (reproduced, text)."""
    env = dict(os.environ)
    env["PYTHONHASHSEED"] = "0"
    if env_extra:
        env.update(env_extra)
    p = subprocess.run(
        [PY, "-B", os.path.join(VERIF_ROOT, "simkit", "cli.py"), "replay-inner", path],
        capture_output=True,
        text=True,
        env=env,
        timeout=600,
    )
    out = p.stdout + p.stderr
    if not quiet:
        sys.stdout.write(out)
    return p.returncode == 1 and "REPRODUCED" in p.stdout, out


def replay_inner(path, specs):
    data = load_json(path)
    prop = data["property"]
    w = Worker(data["engine"])
    try:
        rep = w.call({"op": "exec", "prop": prop, "scenario": data["scenario"], "tape": data["tape"]})
    finally:
        w.close()
    res = rep["result"]
    keys = [v["key"] for v in res.get("violations", [])]
    same_digest = res.get("digest") == data.get("expect_digest")
    for e in res.get("events", [])[-60:]:
        print("  ev", json.dumps(e, default=repr))
    for t in res.get("thread_dump", []):
        print("  thread", json.dumps(t, default=repr))
    for r in res.get("log_tail", []):
        print("  log", json.dumps(r, default=repr))
    for v in res.get("violations", []):
        print("  violation", v["key"], "--", v["msg"])
    if res.get("harness_error"):
        print("HARNESS-ERROR", res["harness_error"])
        return 2
    if data["key"] in keys:
        print("REPRODUCED property=%s class=%s digest_match=%s" % (prop, data["key"], same_digest))
        print("VIOLATION property=%s replay=%s" % (prop, path))
        return 1
    print("NOT-REPRODUCED property=%s class=%s (got %r)" % (prop, data["key"], keys))
    return 0
