"""Scenario + tape minimisation (ddmin flavoured), engine independent.

`attempt(scenario, tape)` must return the result dict of one isolated run.
A candidate is accepted iff the *same violation class key* is still reported.
"""
import copy
import json
import time


def _size(scenario, tape):
    return (len(json.dumps(scenario, sort_keys=True, default=repr)), len(tape), sum(tape))


def _has_key(result, key):
    if not result or result.get("harness_error"):
        return False
    return any(v["key"] == key for v in result.get("violations", ()))


def _paths(obj, prefix=()):
    """Yield (path, value) for every container/leaf, parents before children."""
    yield prefix, obj
    if isinstance(obj, dict):
        for k in sorted(obj):
            yield from _paths(obj[k], prefix + (k,))
    elif isinstance(obj, list):
        for i, v in enumerate(obj):
            yield from _paths(v, prefix + (i,))


def _get(obj, path):
    for p in path:
        obj = obj[p]
    return obj


def _set(obj, path, value):
    for p in path[:-1]:
        obj = obj[p]
    obj[path[-1]] = value


def _simpler_numbers(v):
    if isinstance(v, bool):
        return [False] if v else []
    if isinstance(v, int):
        out = []
        for c in (0, 1, v // 2, v - 1):
            if 0 <= c < v and c not in out:
                out.append(c)
        return out
    if isinstance(v, float):
        if v != v or v in (float("inf"), float("-inf")):
            return []
        out = []
        for c in (0.0, 1.0, float(int(v)), round(v, 1), v / 2):
            if c != v and abs(c) <= abs(v) and c not in out:
                out.append(c)
        return out
    return []


class Minimiser:
    def __init__(self, attempt, key, budget_s, protect=("kind", "prop", "version", "seed", "hold", "rounds", "grace")):
        self.attempt = attempt
        self.key = key
        self.deadline = time.monotonic() + budget_s
        self.tries = 0
        self.protect = set(protect)

    def _left(self):
        return time.monotonic() < self.deadline

    def _try(self, scenario, tape, best):
        """Run a candidate; return (scenario, tape, result) if it keeps the violation."""
        if not self._left():
            return None
        self.tries += 1
        res = self.attempt(scenario, tape)
        if _has_key(res, self.key):
            new_tape = res.get("tape", tape or [])
            if _size(scenario, new_tape) < _size(best[0], best[1]):
                return scenario, new_tape, res
        return None

    def run(self, scenario, tape, result):
        best = (scenario, list(tape), result)
        for _round in range(4):
            before = _size(best[0], best[1])
            best = self._shrink_scenario(best)
            best = self._shrink_tape(best)
            if not self._left() or _size(best[0], best[1]) == before:
                break
        return best

    # -- scenario ---------------------------------------------------------
    def _shrink_scenario(self, best):
        progress = True
        while progress and self._left():
            progress = False
            # 1. delete list elements (chunks first)
            for path, value in list(_paths(best[0])):
                if not self._left():
                    break
                try:
                    cur = _get(best[0], path)
                except (KeyError, IndexError, TypeError):
                    continue
                if not isinstance(cur, list) or not cur:
                    continue
                if path and (path[-1] in self.protect or "knobs" in path):
                    continue
                if isinstance(cur[0], str) and ("steps" in path or "script" in path):
                    # one op-coded step ["op", arg, ...]: removable as a whole (from its parent
                    # list), never truncated - a truncated step is a harness error, not a scenario
                    continue
                n = len(cur)
                chunk = max(1, n // 2)
                while chunk >= 1 and self._left():
                    i = 0
                    removed_any = False
                    while i < len(_get(best[0], path)):
                        cand = copy.deepcopy(best[0])
                        lst = _get(cand, path)
                        del lst[i : i + chunk]
                        got = self._try(cand, best[1], best)
                        if got is None and self._left() and best[1]:
                            got = self._try(cand, None, best)
                        if got is not None:
                            best = got
                            progress = removed_any = True
                        else:
                            i += chunk
                    if chunk == 1 and not removed_any:
                        break
                    chunk = chunk // 2 if chunk > 1 else (1 if removed_any else 0)
            # 2. simplify numbers
            for path, value in list(_paths(best[0])):
                if not self._left():
                    break
                if not path or path[-1] in self.protect or "knobs" in path:
                    continue
                try:
                    cur = _get(best[0], path)
                except (KeyError, IndexError, TypeError):
                    continue
                for c in _simpler_numbers(cur):
                    cand = copy.deepcopy(best[0])
                    _set(cand, path, c)
                    got = self._try(cand, best[1], best)
                    if got is not None:
                        best = got
                        progress = True
                        break
        return best

    # -- tape -------------------------------------------------------------
    def _shrink_tape(self, best):
        tape = list(best[1])
        # truncate
        lo, hi = 0, len(tape)
        while lo < hi and self._left():
            mid = (lo + hi) // 2
            got = self._try(best[0], tape[:mid], best)
            if got is not None:
                best = got
                tape = list(best[1])
                hi = min(mid, len(tape))
            else:
                lo = mid + 1
        tape = list(best[1])
        # zero out chunks of non-zero entries
        chunk = max(1, len(tape) // 2)
        while chunk >= 1 and self._left():
            i = 0
            while i < len(tape) and self._left():
                if any(tape[i : i + chunk]):
                    cand = tape[:i] + [0] * len(tape[i : i + chunk]) + tape[i + chunk :]
                    got = self._try(best[0], cand, best)
                    if got is not None:
                        best = got
                        tape = list(best[1])
                i += chunk
            chunk //= 2
        return best
