"""./check run <id> [--tier quick|thorough] | replay <file> | selftest <what> | list"""
import argparse
import faulthandler
import os
import signal
import sys

faulthandler.register(signal.SIGUSR1, all_threads=True)

sys.path.insert(0, os.path.dirname(os.path.dirname(os.path.abspath(__file__))))

from simkit import orch  # noqa: E402
from simkit.specs import SPECS  # noqa: E402


def main(argv=None):
    ap = argparse.ArgumentParser(prog="check")
    sub = ap.add_subparsers(dest="cmd", required=True)
    r = sub.add_parser("run")
    r.add_argument("prop")
    r.add_argument("--tier", default=os.environ.get("VERIF_TIER", "quick"), choices=["quick", "thorough"])
    r.add_argument("--runs", type=int)
    r.add_argument("--budget", type=float)
    r.add_argument("--workers", type=int)
    r.add_argument("--no-evidence", action="store_true")
    p = sub.add_parser("replay")
    p.add_argument("path")
    pi = sub.add_parser("replay-inner")
    pi.add_argument("path")
    s = sub.add_parser("selftest")
    s.add_argument("what", choices=["determinism", "sensitivity", "seeded", "imports", "all"])
    s.add_argument("--props", default="")
    s.add_argument("--seeds", type=int, default=0)
    s.add_argument("--names", default="")
    s.add_argument("--runs", type=int)
    sub.add_parser("list")
    args = ap.parse_args(argv)

    if args.cmd == "list":
        for k, v in sorted(SPECS.items()):
            print(k, v["engine"], v["title"])
        return 0
    if args.cmd == "run":
        if args.prop not in SPECS:
            print("unknown or not-applicable property %s" % args.prop)
            return 2
        code, _ = orch.run_check(
            args.prop,
            args.tier,
            SPECS[args.prop],
            nworkers=args.workers,
            runs=args.runs,
            budget_s=args.budget,
            write_evidence=not args.no_evidence,
        )
        return code
    if args.cmd == "replay":
        ok, out = orch.replay_file(args.path, quiet=False)
        return 1 if ok else (2 if "HARNESS-ERROR" in out else 0)
    if args.cmd == "replay-inner":
        return orch.replay_inner(args.path, SPECS)
    if args.cmd == "selftest":
        from simkit import selftest

        return selftest.main(args)
    return 2


if __name__ == "__main__":
    sys.exit(main())
