"""Worker process: executes simulated runs for one engine.

Protocol: JSON lines on stdin/stdout (stdout is reserved for the protocol;
anything the simulated code prints goes to stderr).
"""
import json
import faulthandler
import os
import signal
import sys

faulthandler.register(signal.SIGUSR1, all_threads=True)
import time

sys.path.insert(0, os.path.dirname(os.path.dirname(os.path.abspath(__file__))))


def main():
    engine_name = sys.argv[1]
    proto_out = os.fdopen(os.dup(1), "w")
    os.dup2(2, 1)  # stray prints of simulated code must not corrupt the protocol
    sys.stdout = sys.stderr

    if engine_name == "rtsim":
        # patches must precede the import of asyncio / trio / cobald
        from rtsim import engine
    elif engine_name == "plsim":
        from plsim import engine
    else:
        raise SystemExit("unknown engine %r" % engine_name)
    from simkit.util import derive_seed
    from simkit.minimise import Minimiser

    def reply(obj):
        proto_out.write(json.dumps(obj, default=repr) + "\n")
        proto_out.flush()

    reply({"op": "hello", "engine": engine_name, "pid": os.getpid()})
    for line in sys.stdin:
        line = line.strip()
        if not line:
            continue
        msg = json.loads(line)
        op = msg["op"]
        if op == "quit":
            break
        try:
            if op == "batch":
                runs, viols, errors = [], [], []
                recheck_every = msg.get("recheck_every", 0)
                for idx in msg["indices"]:
                    seed = derive_seed(msg["base"], msg["prop"], idx)
                    scenario = engine.gen(msg["prop"], seed, msg["tier"])
                    res = engine.execute(msg["prop"], scenario, None)
                    if res.get("harness_error"):
                        errors.append({"i": idx, "seed": seed, "error": res["harness_error"]})
                        continue
                    st = res.get("stats", {})
                    rec = {
                        "i": idx,
                        "sig": res.get("sig"),
                        "nt": bool(res.get("nontrivial")),
                        "st": st,
                        "d": res.get("digest"),
                    }
                    if recheck_every and idx % recheck_every == 0:
                        res2 = engine.execute(msg["prop"], scenario, res.get("tape", []))
                        rec["recheck"] = (
                            res2.get("digest") == res.get("digest")
                            and not res2.get("harness_error")
                        )
                        if not rec["recheck"]:
                            rec["recheck_detail"] = {
                                "first": res.get("digest"),
                                "second": res2.get("digest"),
                                "err": res2.get("harness_error"),
                            }
                    if msg.get("want_sample") and idx == msg["indices"][0]:
                        rec["sample"] = {
                            "seed": seed,
                            "scenario": scenario,
                            "tape_len": len(res.get("tape", [])),
                            "digest": res.get("digest"),
                            "events_head": res.get("events", [])[:12],
                        }
                    runs.append(rec)
                    if res.get("violations"):
                        viols.append(
                            {
                                "i": idx,
                                "seed": seed,
                                "scenario": scenario,
                                "tape": res.get("tape", []),
                                "violations": res["violations"],
                                "digest": res.get("digest"),
                                "events_tail": res.get("events", [])[-80:],
                                "log_tail": res.get("log_tail", [])[-25:],
                                "thread_dump": res.get("thread_dump", []),
                            }
                        )
                reply({"op": "batch", "runs": runs, "violations": viols, "errors": errors})
            elif op == "exec":
                res = engine.execute(msg["prop"], msg["scenario"], msg.get("tape"))
                reply({"op": "exec", "result": res})
            elif op == "gen":
                seed = derive_seed(msg["base"], msg["prop"], msg["index"])
                reply({"op": "gen", "seed": seed, "scenario": engine.gen(msg["prop"], seed, msg["tier"])})
            elif op == "minimise":
                prop = msg["prop"]

                def attempt(scenario, tape):
                    return engine.execute(prop, scenario, tape)

                first = engine.execute(prop, msg["scenario"], msg["tape"])
                m = Minimiser(attempt, msg["key"], msg.get("budget_s", 20))
                if not any(v["key"] == msg["key"] for v in first.get("violations", ())):
                    reply({"op": "minimise", "ok": False, "why": "not reproduced", "result": first})
                    continue
                scen, tape, res = m.run(msg["scenario"], first.get("tape", msg["tape"]), first)
                # final confirmation run, exact replay of the minimised pair
                final = engine.execute(prop, scen, tape)
                reply(
                    {
                        "op": "minimise",
                        "ok": any(v["key"] == msg["key"] for v in final.get("violations", ())),
                        "scenario": scen,
                        "tape": final.get("tape", tape),
                        "result": final,
                        "tries": m.tries,
                    }
                )
            else:
                reply({"op": "error", "error": "unknown op %r" % op})
        except BaseException as err:  # harness trouble: report, never a verdict
            import traceback

            reply({"op": "error", "error": "%s: %s" % (type(err).__name__, err), "trace": traceback.format_exc()})


if __name__ == "__main__":
    main()
