"""Per-property registry: engine, budgets, evidence texts."""

PL_REAL = [
    "cobald controllers / decorators / composites (unmodified, imported from /repo/src)",
    "trio scheduler, nurseries, timers (trio.run with a virtual clock)",
    "python logging (records captured by a handler)",
]
PL_STUB = [
    "wall clock -> trio.testing.MockClock(autojump_threshold=0)",
    "trio batch order -> tape-driven shuffle (trio's deterministic-scheduling switch)",
    "leaf pools -> recording pools of the harness",
    "environment (who changes supply/utilisation/demand when) -> generated timed script",
    "garbage collector timing -> gc disabled, collected at scripted instants",
]
PL_ASSUME = [
    "services are started directly in the world's nursery; starting them through the runtime is C03/C13",
    "zero-cost steps: virtual time only advances in trio.sleep",
    "a clean batch is evidence, not proof: seeded sampling of histories and batch orders",
]

RT_REAL = [
    "all of cobald.daemon (ServiceRunner, MetaRunner, the three runners, service units, guard, core.main for C13)",
    "asyncio event loop, tasks (C implementation, subclassed only for a seeded __hash__), futures, run_in_executor, asyncio.run incl. its SIGINT handler and executor shutdown",
    "trio run loop, nurseries, cancel scopes, memory channels, entry queue, from_thread",
    "concurrent.futures.ThreadPoolExecutor, threading.Thread/Condition/Event/Semaphore/RLock (pure-Python logic) on real OS threads",
]
RT_STUB = [
    "innermost lock primitive -> SimLock (baton passing; one thread runs at a time, chosen by the seeded scheduler)",
    "OS scheduler / GIL switch points -> yield points at every lock operation and every source line of cobald.daemon.runners.*, core.main and harness payloads (sys.monitoring LINE events)",
    "clocks of asyncio, trio, time.sleep/monotonic -> one virtual clock; idle waits of select/epoll park in the scheduler (non-blocking polls of the real fds still happen)",
    "SIGINT -> simulated delivery on the main thread at a yield point / on wake-up from a blocking wait",
    "garbage collector timing -> gc disabled, collected at scripted instants",
    "payloads, pools, configuration files -> harness",
]
RT_ASSUME = [
    "pre-emption inside stdlib/trio/asyncio functions happens only at their lock/queue operations (and at every line of WeakSet.__iter__)",
    "a busy loop iteration costs a fixed virtual delta (CPU-cost model); timing oracles use a 50 ms tolerance",
    "single SIGINT only (double ^C excluded); no resource exhaustion",
    "a clean batch is evidence, not proof: seeded sampling of schedules and fault sequences",
]


def _pl(title, rule, quick_runs, thorough_runs, chunk=200):
    return {
        "engine": "plsim",
        "title": title,
        "rule": rule,
        "tiers": {
            "quick": {"runs": quick_runs, "budget_s": 45, "chunk": chunk, "recheck_every": 50, "minimise_s": 20},
            "thorough": {"runs": thorough_runs, "budget_s": 600, "chunk": chunk, "recheck_every": 200, "minimise_s": 60},
        },
        "real_components": PL_REAL,
        "stub_components": PL_STUB,
        "assumptions": PL_ASSUME,
    }


def _rt(title, rule, quick_runs, thorough_runs, chunk=10):
    return {
        "engine": "rtsim",
        "title": title,
        "rule": rule,
        "tiers": {
            "quick": {"runs": quick_runs, "budget_s": 45, "chunk": chunk, "recheck_every": 50, "minimise_s": 25},
            "thorough": {"runs": thorough_runs, "budget_s": 600, "chunk": chunk, "recheck_every": 200, "minimise_s": 90},
        },
        "real_components": RT_REAL,
        "stub_components": RT_STUB,
        "assumptions": RT_ASSUME,
    }


SPECS = {
    "C01": _rt(
        "Background failures always stop the daemon",
        "one runtime per seed: 0-6 bystander payloads, 1-3 failing payloads (flavour x failure kind x registration path x time), seeded thread schedule; "
        "non-trivial = at least one injected failure actually occurred while the runtime was up; "
        "distinct = distinct (multiset of (flavour, failure kind, registration), population size, stop mixed in, run mode, schedule-trace hash)",
        6000,
        600000,
    ),
    "C02": _rt(
        "Termination cancels every coroutine payload and finishes its cleanup first",
        "one runtime per seed: 0-7 payloads in seeded states (sleeping, spinning, blocked, just adopted, adopted by other payloads; sync / shielded async cleanup), one termination trigger "
        "(failure per flavour, two failures, SIGINT, stop(), shutdown() from a thread or a thread payload, payload-raised KeyboardInterrupt) at a seeded or marker-aligned instant; "
        "non-trivial = at least one coroutine payload was running when the trigger fired; "
        "distinct = distinct (trigger, multiset of running payload states, how the run call ended, schedule-trace hash)",
        9000,
        600000,
    ),
    "C03": _rt(
        "Every adopted payload and every service is started exactly once",
        "one runtime per seed: 1-9 payloads/services per flavour with seeded argument tuples/dicts, submitted before start, during the first polling cycles and long after, "
        "from outside threads and from payloads of every flavour, services kept or dropped, >= 3 polling cycles before the quiescence mark, optionally a shutdown racing with the submissions "
        "(thorough: also submissions inside the launch window); non-trivial = the run reached its quiescence mark with the runtime still up, or an adoption overlapped a stop in progress; "
        "distinct = distinct (mode, multiset of (flavour, path, #args, #kwargs), how the run call ended, schedule-trace hash)",
        5000,
        500000,
    ),
    "C10": _rt(
        "execute hands the payload's outcome to the caller and leaves the runtime alone",
        "one runtime per seed: bystanders with heartbeats in every flavour, 1-8 execute calls (target flavour x calling context: outside thread, thread payload, coroutine payload of another flavour "
        "x outcome: None / falsy / truthy object / unstarted coroutine or generator object / Exception subclass x argument lists), then a late adoption and a harness shutdown; "
        "non-trivial = at least one execute call completed; distinct = distinct (multiset of (target, caller, outcome), population, schedule-trace hash)",
        5000,
        500000,
    ),
    "C11": _rt(
        "Coroutine payloads of one flavour never run in parallel",
        "one runtime per seed: 2-8 coroutine payloads with heartbeats and non-atomic enter/exit sections (line-level pre-emption inside), adopted / service / executed from every context, "
        "0-3 thread payloads that sleep for seconds or block forever; overlap detector, loop/run/thread identity, heartbeat lateness; "
        "non-trivial = heartbeats ticked and (payloads arrived by more than two registration modes or a thread payload blocked); "
        "distinct = distinct (multiset of (flavour, path), modes per flavour, #blocked threads, schedule-trace hash)",
        4000,
        400000,
    ),
    "C12": _rt(
        "Runtime lifecycle: exclusive accept, shutdown always completes, restart possible",
        "one simulated process per seed with a history of 1-4 ServiceRunner instances accepting one after the other: per runner a payload population (none, sleeping coroutines, blocked threads, mixed, "
        "adoptions in flight), optionally a concurrent accept of another runner, and an end by shutdown() from a thread or a thread payload, SIGINT, a failing payload, or failure plus shutdown, "
        "timed on/around the polling instants of the service loop; non-trivial = at least one runner reached 'running' and was ended; "
        "distinct = distinct (sequence of (end kind, concurrent accept, population), schedule-trace hash)",
        4000,
        400000,
    ),
    "C13": _rt(
        "The daemon runs its configured pipeline until stopped; failures set exit status",
        "one daemon per seed: cobald.daemon.core.main.cli_run() on the process-global runtime with a generated configuration (YAML: !Tag mapping/sequence/bare and __type__ elements in any mixture, optional "
        "logging / extra plugin section; Python module with >>; shipped and instrumented elements, services of all flavours), one fault or none (13 kinds of configuration error, a service failing at a seeded "
        "time with a seeded kind), SIGINT at a seeded time, GC at seeded points; non-trivial = every run (a whole daemon life cycle); "
        "distinct = distinct (format, element classes and forms, fault, extras, exit status, schedule-trace hash)",
        4000,
        400000,
    ),
    "C06": _pl(
        "Standardiser always keeps the forwarded demand within its limits",
        "one world per seed: a Standardiser with parameters from everything the constructor accepts (infinite / fractional limits, integral and fractional granularity) over a recording pool, "
        "1-60 operations (int and float demand writes biased onto the limits, reads, supply changes, outside demand changes, n-increments comparisons over frozen twin pools); exact dyadic arithmetic, "
        "Fraction reference; non-trivial = at least one write; distinct = distinct (set of active limits, demand type mode, op kinds used, length bucket)",
        150000,
        8000000,
    ),
    "C07": _pl(
        "Composite pools conserve demand and aggregate their children faithfully",
        "one world per seed: UniformComposite or WeightedComposite (all three weights) with 0-8 recording children (all-zero weights, single non-zero, equal, tiny/huge magnitudes in [1e-100, 1e100]), "
        "1-40 operations (demand writes, child state changes, children appended / removed, reads); conservation, proportionality, share bounds, exact read-back, supply sum, convexity and documented fallbacks "
        "after every event (relative tolerance 1e-9 where the statement allows rounding); non-trivial = a demand write with at least one child; "
        "distinct = distinct (composite kind, #children bucket, weight class, op kinds used, length bucket)",
        100000,
        6000000,
    ),
    "C15": _pl(
        "FactoryPool spawns and releases just enough children",
        "one world per seed: a FactoryPool with 0-6 initial children and a counting factory, driven through its real run() loop for 1-40 adjustments under a virtual clock, with an environment script between "
        "adjustments (demand writes, child supply / fitness changes, children disabling themselves, dropping the last reference to a released child, gc); dense sampling of short histories over small value "
        "alphabets plus random long ones; a snapshot after every adjustment is judged against the population before it; non-trivial = at least one adjustment spawned or shrank; "
        "distinct = distinct (#initial, #adjustments bucket, op kinds, #grow / #shrink adjustments, factory demands)",
        20000,
        1500000,
    ),
    "C16": _pl(
        "Decorators are transparent except for what they are meant to change",
        "one world per seed: a stack of depth 0-5 in any order of PoolDecorator, Logger (names, levels, templates over documented, deprecated and unknown fields), Standardiser and Buffer (its service "
        "running under the virtual clock) over a recording pool; 1-40 timed operations (demand writes at the top, reads, pool state changes, outside demand changes); observational equivalence after every "
        "event, log records checked for count, order relative to the pool write and field values; non-trivial = non-empty stack and at least one write; "
        "distinct = distinct (stack kinds in order, op kinds, length bucket, #template probes)",
        100000,
        6000000,
    ),
    "C08": _pl(
        "Controllers move demand only in the documented direction and amount",
        "one world per seed: one controller (Linear, RelativeSupply, Stepwise via @stepwise/add/.s/direct, DemandSwitch over shipped and instrumented slave controllers) over a recording pool, "
        "1-60 regulation steps with pool states biased onto thresholds and one grid step around them; non-trivial = at least one step; "
        "distinct = distinct (controller, #steps bucket, parameter names, table size, construction path, whether a step sat exactly on a threshold)",
        120000,
        6000000,
    ),
    "C09": _pl(
        "Periodic services act once per interval",
        "one world per seed: a shipped periodic service over recording pools, a generated timed environment script "
        "(writes / state changes before, on and after period boundaries) and a seeded trio batch order; "
        "non-trivial = at least one environment action landed within one grid step of a period boundary while the service ran >= 3 periods; "
        "distinct = distinct (service kind, parameters, script shape, batch-order digest)",
        50000,
        3000000,
    ),
}
