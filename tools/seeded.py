"""Seeded-change bookkeeping.

  seeded.py verify <name> <worktree> <property>   confirm an independently written change in a fresh scratch worktree
                                                  (tests pass, demo fails with / passes without) and store it under seeded/<name>/
  seeded.py check <name> [--props C01,C02] [--tier quick]
                                                  apply seeded/<name>/patch.diff to /repo, run the checks, undo it straight away
"""
import argparse
import json
import os
import shutil
import subprocess
import sys
import time

ROOT = os.path.dirname(os.path.dirname(os.path.abspath(__file__)))
PY = "/venv/bin/python"


def sh(cmd, cwd=None, env=None, timeout=900):
    p = subprocess.run(cmd, shell=True, cwd=cwd, env=env, capture_output=True, text=True, timeout=timeout)
    return p.returncode, (p.stdout + p.stderr)


def verify(name, wt, prop):
    dst = os.path.join(ROOT, "seeded", name)
    os.makedirs(dst, exist_ok=True)
    patch = os.path.join(wt, "patch.diff")
    demo = os.path.join(wt, "demo.py")
    # regenerate the patch from the worktree state (source only)
    code, out = sh("git diff -- src", cwd=wt)
    if out.strip():
        open(patch, "w").write(out)
    scratch = "/tmp/seeded-verify-%s" % name
    sh("git -C /repo worktree remove --force %s" % scratch)
    code, out = sh("git -C /repo worktree add -q --detach %s HEAD" % scratch)
    assert code == 0, out
    res = {"name": name, "property": prop}
    try:
        env = dict(os.environ, PYTHONPATH=os.path.join(scratch, "src"))
        shutil.copy(demo, os.path.join(scratch, "demo.py"))
        code, out = sh("%s demo.py" % PY, cwd=scratch, env=env, timeout=300)
        res["demo_without_change"] = {"exit": code, "tail": out[-400:]}
        code, out = sh("git apply %s" % patch, cwd=scratch)
        assert code == 0, "patch does not apply: " + out
        code, out = sh("%s -m pytest -q -p no:cacheprovider --timeout=600" % PY, cwd=scratch, env=env, timeout=900)
        res["tests_with_change"] = {"exit": code, "tail": out.strip().splitlines()[-1] if out.strip() else ""}
        code, out = sh("%s demo.py" % PY, cwd=scratch, env=env, timeout=300)
        res["demo_with_change"] = {"exit": code, "tail": out[-600:]}
    finally:
        sh("git -C /repo worktree remove --force %s" % scratch)
    ok = res["demo_without_change"]["exit"] == 0 and res["tests_with_change"]["exit"] == 0 and res["demo_with_change"]["exit"] != 0
    res["confirmed"] = ok
    shutil.copy(patch, os.path.join(dst, "patch.diff"))
    shutil.copy(demo, os.path.join(dst, "demo.py"))
    notes = os.path.join(wt, "NOTES.md")
    if os.path.exists(notes):
        shutil.copy(notes, os.path.join(dst, "NOTES.md"))
    meta_path = os.path.join(dst, "meta.json")
    meta = json.load(open(meta_path)) if os.path.exists(meta_path) else {}
    meta.update({"name": name, "breaks_property": prop, "origin": "independent sub-agent, given only the property text and a scratch worktree", "confirmation": res, "confirmed_at_repo_commit": sh("git -C /repo rev-parse --short HEAD")[1].strip()})
    json.dump(meta, open(meta_path, "w"), indent=1)
    print(json.dumps(res, indent=1))
    return 0 if ok else 1


def reverify(name):
    """Re-confirm a stored change against the current /repo HEAD (after a repository fix)."""
    dst = os.path.join(ROOT, "seeded", name)
    scratch = "/tmp/seeded-verify-%s" % name
    sh("git -C /repo worktree remove --force %s" % scratch)
    code, out = sh("git -C /repo worktree add -q --detach %s HEAD" % scratch)
    assert code == 0, out
    res = {}
    try:
        env = dict(os.environ, PYTHONPATH=os.path.join(scratch, "src"))
        shutil.copy(os.path.join(dst, "demo.py"), os.path.join(scratch, "demo.py"))
        code, out = sh("%s demo.py" % PY, cwd=scratch, env=env, timeout=300)
        res["demo_without_change"] = {"exit": code, "tail": out[-300:]}
        code, out = sh("git apply %s" % os.path.join(dst, "patch.diff"), cwd=scratch)
        if code != 0:
            res["patch"] = "does not apply: " + out[-300:]
        else:
            code, out = sh("%s -m pytest -q -p no:cacheprovider --timeout=600" % PY, cwd=scratch, env=env, timeout=900)
            res["tests_with_change"] = {"exit": code, "tail": out.strip().splitlines()[-1] if out.strip() else ""}
            code, out = sh("%s demo.py" % PY, cwd=scratch, env=env, timeout=300)
            res["demo_with_change"] = {"exit": code, "tail": out[-300:]}
    finally:
        sh("git -C /repo worktree remove --force %s" % scratch)
    ok = res.get("demo_without_change", {}).get("exit") == 0 and res.get("tests_with_change", {}).get("exit") == 0 and res.get("demo_with_change", {}).get("exit", 0) != 0
    res["confirmed"] = ok
    res["repo_commit"] = sh("git -C /repo rev-parse --short HEAD")[1].strip()
    meta_path = os.path.join(dst, "meta.json")
    meta = json.load(open(meta_path))
    meta.setdefault("reverifications", []).append(res)
    json.dump(meta, open(meta_path, "w"), indent=1)
    print(name, "CONFIRMED" if ok else "NOT-CONFIRMED", json.dumps({k: (v.get("exit") if isinstance(v, dict) else v) for k, v in res.items()}))
    return 0 if ok else 1


def check(name, props, tier):
    dst = os.path.join(ROOT, "seeded", name)
    meta_path = os.path.join(dst, "meta.json")
    meta = json.load(open(meta_path))
    props = props or [meta["breaks_property"]]
    code, out = sh("git -C /repo status --porcelain")
    assert not out.strip(), "/repo is not clean: " + out
    code, out = sh("git -C /repo apply %s" % os.path.join(dst, "patch.diff"))
    assert code == 0, "patch does not apply to /repo: " + out
    results = {}
    try:
        for p in props:
            t0 = time.time()
            env = dict(os.environ, VERIF_REPLAY_DIR="/tmp/seeded-replays-%s" % name)
            code, out = sh("./check run %s --tier %s --no-evidence" % (p, tier), cwd=ROOT, env=env, timeout=3600)
            lines = [ln for ln in out.splitlines() if ln.startswith("VIOLATION") or ln.startswith("  class=") or ln.startswith("HARNESS")]
            results[p] = {"exit": code, "caught": code == 1, "wall_s": round(time.time() - t0, 1), "classes": [ln.strip()[:220] for ln in lines if ln.startswith("  class=")][:8], "summary": out.strip().splitlines()[-1][:200] if out.strip() else ""}
            print(p, "CAUGHT" if code == 1 else "MISSED (exit %d)" % code, results[p]["summary"])
            for c in results[p]["classes"][:4]:
                print("   ", c)
    finally:
        code, out = sh("git -C /repo checkout -- . && git -C /repo status --porcelain")
        assert not out.strip(), "/repo not restored: " + out
        shutil.rmtree("/tmp/seeded-replays-%s" % name, ignore_errors=True)
    meta.setdefault("check_runs", []).append({"tier": tier, "verif_commit": sh("git -C %s rev-parse --short HEAD" % ROOT)[1].strip(), "results": results})
    json.dump(meta, open(meta_path, "w"), indent=1)
    return 0


def main():
    ap = argparse.ArgumentParser()
    sub = ap.add_subparsers(dest="cmd", required=True)
    v = sub.add_parser("verify")
    v.add_argument("name")
    v.add_argument("worktree")
    v.add_argument("property")
    c = sub.add_parser("check")
    c.add_argument("name")
    c.add_argument("--props", default="")
    c.add_argument("--tier", default="quick")
    r = sub.add_parser("reverify")
    r.add_argument("name")
    a = ap.parse_args()
    if a.cmd == "reverify":
        return reverify(a.name)
    if a.cmd == "verify":
        return verify(a.name, a.worktree, a.property)
    return check(a.name, [p for p in a.props.split(",") if p], a.tier)


if __name__ == "__main__":
    sys.exit(main())
