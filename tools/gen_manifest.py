"""Regenerate MANIFEST.json from the registry (texts live here)."""
import json
import os
import sys

sys.path.insert(0, os.path.dirname(os.path.dirname(os.path.abspath(__file__))))
from simkit.specs import SPECS

TEXT = {
    "C01": ("5.1", "seeded search over runtimes: real cobald runtime (asyncio loop thread, trio thread, payload threads, executor and caller threads) under a seeded baton scheduler with virtual time; failures of every kind are injected through every registration path while the scheduler decides every interleaving, and the way accept()/run() ends is checked against the failures that actually occurred", "history check over how the run call ended vs. injected failures"),
    "C02": ("5.2", "seeded search over (payload population, termination trigger, schedule): per-payload event log (start / cancelled / cleanup / step, totally ordered by the simulator's event counter) compared with the instant the run call ended, plus a grace period after it and a bounded-liveness check with blocked threads", "ordering check over the recorded history + bounded liveness"),
    "C03": ("5.3", "seeded search over submission histories and schedules: exactly-once counting of payload start events at quiescence (>= 3 polling cycles), flavour context and argument equality per start, adopt return/raise in every phase incl. a shutdown in progress", "exactly-once accounting over the recorded history"),
    "C10": ("5.4", "seeded search over sequences of execute calls from every calling context interleaved with background payloads: identity of result / exception at the caller, exactly one run in the target flavour's context, liveness of the runtime and its bystanders afterwards", "identity + liveness oracle over the recorded history"),
    "C11": ("5.5", "seeded search over schedules with line-level pre-emption inside non-atomic sections of the payloads: overlap detector per flavour, loop / run / thread identity for adopted, service and executed payloads, heartbeat lateness while thread payloads block", "overlap invariant under a pre-empting scheduler"),
    "C12": ("5.6", "seeded search over lifecycle histories of several runner instances in one simulated process: concurrent accept, shutdown from threads and payloads, SIGINT, failures, restart; bounded liveness of accept()/shutdown() and release of the guard on every exit path", "bounded liveness + history check over runner lifecycles"),
    "C13": ("5.7", "seeded search over generated configurations (YAML and Python), configuration faults, service failures, SIGINT and GC points with the daemon's CLI entry point running in-process under the simulator; simulated exit status, runtime log and service event log are checked", "end-to-end simulation of the daemon with fault injection"),
    "C09": ("6.1", "seeded search over timed histories: every shipped periodic service is run through its real run() loop for 3-200 periods under a virtual clock with environment actions placed before/on/after boundaries; the recorded history is checked against the exact set of expected step instants and a per-step reference", "virtual-clock simulation with timestamp oracle"),
    "C15": ("6.2", "seeded search over FactoryPool histories (demand writes, child state changes, children disabling themselves, dropped references + GC) driven through the real run() loop under a virtual clock; a reference model of the child population is compared after every adjustment", "reference-model check after every adjustment"),
    "C16": ("6.3", "seeded search over decorator stacks and operation histories with the Buffer service running under a virtual clock: observational equivalence with the undecorated pool after every event, log records (count, order relative to the write, field values)", "observational equivalence after every event"),
    "C06": ("6.4", "seeded multi-actor histories (writes, reads, supply changes, outside demand changes) through a Standardiser with exact dyadic arithmetic; limits invariant and reference computation after every operation. No schedule dimension: operations are atomic between trio checkpoints", "reference-model check per event (degenerate schedule dimension)"),
    "C07": ("6.5", "seeded histories over uniform / weighted composites (demand writes, child state changes, children added/removed): conservation, proportionality, share bounds, convexity and documented fallbacks after every event. No schedule dimension", "invariant check per event (degenerate schedule dimension)"),
    "C08": ("6.6", "seeded step sequences for every controller with pool states on and around thresholds: per-step reference for direction and amount, call log of rules / slave controllers. No schedule dimension", "per-step reference check (degenerate schedule dimension)"),
}

NA = [
    ("C04", "pure function from a chain expression to an object graph: no schedule, clock, fault or shared state for a simulator to control"),
    ("C05", "pure function of the YAML document; its end-to-end consequence (constructor error => daemon exits non-zero) is exercised inside C13"),
    ("C14", "pure function of (plugin set, mapping); no fault or interleaving involved"),
    ("C17", "pure function of the record; time is a field of the input"),
    ("C18", "pure negative statement about a parser's input language"),
    ("C19", "pure recursive function of a tree"),
]

NOTE = {
    "rtsim": "sampling, not enumeration; pre-emption inside stdlib/trio/asyncio only at their lock/queue operations (and inside WeakSet.__iter__); CPU-cost model for busy loop iterations (timing oracles use 50 ms tolerance); single SIGINT (a SIGINT next to a failing or interrupting payload is generated, a second ^C is not); weak fairness of the simulated scheduler is assumed for the liveness clauses",
    "plsim": "sampling, not enumeration; zero-cost steps under trio's MockClock; services started directly in a nursery (starting through the runtime is C03/C13)",
}


def main():
    checks = []
    for prop in sorted(SPECS):
        spec = SPECS[prop]
        ref, text, tech = TEXT[prop]
        checks.append(
            {
                "property_id": prop,
                "quick_cmd": "./check run %s --tier quick" % prop,
                "thorough_cmd": "./check run %s --tier thorough" % prop,
                "evidence_file": "evidence/%s.json" % prop,
                "replay_cmd_template": "./check replay {path}",
                "engine": spec["engine"],
                "level_claimed": {"category": "exploration", "text": text, "design_ref": ref},
                "level_note": NOTE[spec["engine"]],
                "technique": "deterministic simulation with fault injection: " + tech,
            }
        )
    claimed = set(SPECS)
    man = {
        "version": 1,
        "setup_cmd": "./check selftest imports",
        "hooks": {
            "guard": "COBALD_VERIF",
            "enable": "no source hooks: every seam is patched from outside before cobald is imported (DESIGN.md 3.2); checks set COBALD_VERIF=1 only as a marker",
            "baseline_off_cmd": "cd /repo && /venv/bin/python -m pytest -ra -q -p no:cacheprovider --timeout=900 --continue-on-collection-errors",
            "source_commits": [],
            "add_only": True,
        },
        "engines": [
            {"name": "rtsim", "path": "rtsim/", "serves_properties": sorted(p for p in claimed if SPECS[p]["engine"] == "rtsim"), "kind_free_text": "deterministic simulation of the threaded runtime: real OS threads under a seeded baton scheduler (SimLock, line-level pre-emption via sys.monitoring), one virtual clock for asyncio, trio and time.sleep, simulated SIGINT and GC; one forked child per run"},
            {"name": "plsim", "path": "plsim/", "serves_properties": sorted(p for p in claimed if SPECS[p]["engine"] == "plsim"), "kind_free_text": "deterministic simulation of pipeline worlds: real cobald objects as trio tasks under a virtual clock, seeded batch order, generated timed environment scripts, reference-model oracles over the recorded history"},
        ],
        "checks": checks,
        "not_applicable": [{"property_id": p, "reason": r} for p, r in NA if p not in claimed],
        "notes": "Exit codes: 0 held (KNOWN-FINDING lines for entries of known_findings.json), 1 VIOLATION, 2 HARNESS-ERROR (never a verdict). Defects of cobald repaired by fix: commits in /repo are listed under 'fixed' in known_findings.json.",
    }
    path = os.path.join(os.path.dirname(os.path.dirname(os.path.abspath(__file__))), "MANIFEST.json")
    with open(path, "w") as f:
        json.dump(man, f, indent=1)
        f.write("\n")
    print("wrote", path, "checks:", [c["property_id"] for c in checks])


if __name__ == "__main__":
    main()
